//! pmc-race - the free-running companion of the schedule explorer.
//!
//! The explorer (harness-sched) decides C16(c) by enumerating schedules, but it only sees the
//! scheduling points of the synchronisation primitives it intercepts. Shared state that is not
//! behind any primitive (`static mut`, `UnsafeCell` + `unsafe impl Sync`, ...) is invisible to it.
//! This binary is the separate pass the explorer needs for that: it is built with ThreadSanitizer
//! (std included) and runs a **bounded, exhaustively enumerated** set of two- and three-thread
//! harness bodies on real, free-running threads:
//!
//!   * `first <suite> <i>`        - fresh process; three threads make call i (twice each) as the very
//!                                  first use of the library in the process
//!   * `pairs <suite> <k> <n>`    - shard k of n of all unordered pairs {i, j} of calls: thread A makes
//!                                  call i while thread B makes call j (a barrier separates scenarios,
//!                                  so accesses of one scenario are unordered with each other only)
//!   * `one <suite> <i> <j>`      - a single pair in a fresh process (replay)
//!   * `count <suite>` / `name <suite> <i>`
//!
//! ThreadSanitizer reports every pair of conflicting accesses of one scenario that are not ordered
//! by happens-before - whether or not the values tore in this particular run - on stderr; the
//! results of the calls are compared with the single-threaded answers and differences are printed
//! as MISMATCH lines on stdout. The parent (`pmc`, check C16 / C15) reads both.

use precis_core::profile::{PrecisFastInvocation, Profile, Rules};
use precis_core::{FreeformClass, IdentifierClass, StringClass};
use precis_profiles::{Nickname, OpaqueString, UsernameCaseMapped, UsernameCasePreserved};
use std::panic::{catch_unwind, AssertUnwindSafe};
use std::path::{Path, PathBuf};
use std::sync::{Arc, Barrier};

/// labels chosen so that every table, rule and mapping of the library is reached from at least
/// two *different* entries (what a one-entry memo or a "last hit" finger confuses)
const INPUTS: &[&str] = &[
    "",
    "a",
    "Guybrush",
    "  Foo  Bar ",
    "\u{ff21}\u{ff22}\u{ff43}",             // fullwidth ASCII
    "\u{3000}x\u{3000}",                    // ideographic space
    "\u{ff71}\u{ff72}",                     // halfwidth katakana
    "\u{ffe6}\u{ffa1}",                     // fullwidth won, halfwidth hangul
    "\u{1c5}\u{130}",                       // titlecase digraph, I with dot
    "\u{3a3}\u{3b1}\u{3c2}",                // Greek with final sigma
    "stra\u{df}e\u{212a}",                  // sharp s, Kelvin sign
    "e\u{301}",                             // canonical composition
    "a\u{334}\u{301}",                      // blocked / reordered marks
    "\u{fb01}\u{2168}",                     // compatibility characters
    "\u{e000}",                             // private use
    "\u{2028}",                             // line separator
    "\u{378}",                              // unassigned
    "\t",                                   // control
    "\u{628}\u{64b}\u{200c}\u{628}",        // ZWNJ after a transparent mark (Arabic range)
    "\u{628}\u{5b0}\u{200c}\u{628}",        // ZWNJ after a transparent mark (Hebrew range)
    "\u{645}\u{6cc}\u{200c}\u{62e}\u{648}", // Persian ZWNJ
    "\u{628}\u{200c}a",                     // ZWNJ in a bad context
    "\u{915}\u{94d}\u{200c}",               // ZWNJ after a virama
    "\u{915}\u{94d}\u{200d}",               // ZWJ after a virama
    "\u{b95}\u{bcd}\u{200d}",               // ZWJ after another virama
    "l\u{b7}l",                             // middle dot
    "\u{3b1}\u{375}\u{3b2}",                // keraia
    "\u{5d0}\u{5f3}",                       // geresh
    "\u{5d0}\u{5f4}\u{5d1}",                // gershayim
    "\u{30a2}\u{30fb}",                     // katakana middle dot with kana
    "\u{65e5}\u{30fb}",                     // ... with Han
    "\u{3042}\u{30fb}",                     // ... with hiragana
    "\u{30fb}",                             // ... alone
    "\u{661}\u{662}",                       // Arabic-Indic digits
    "\u{6f1}\u{6f2}",                       // extended Arabic-Indic digits
    "\u{661}\u{6f1}",                       // mixed
    "\u{5d0}\u{5d1}",                       // RTL label
    "\u{5d0}1",                             // RTL with EN
    "a\u{5d0}",                             // mixed direction
    "\u{627}\u{661}",                       // AL with AN
    "\u{1100}\u{1161}",                     // conjoining jamo
    "\u{ac00}",                             // hangul syllable
    "\u{65e5}\u{672c}",                     // Han
    "\u{1f600}",                            // emoji
    "\u{a0}b\u{2003}c",                     // non-ASCII spaces
    "\u{10400}\u{13a0}",                    // Deseret, Cherokee
];

type Call = Box<dyn Fn(&Path) -> String + Send + Sync>;

// ---- which scenario was running when ThreadSanitizer reported? -------------------------------
// The runtime calls `__tsan_on_report` (a weak hook) for every report it prints. The scenario
// number is published by thread 0 before the barrier that starts the scenario.
use std::sync::atomic::{AtomicUsize, Ordering};
static CURRENT: AtomicUsize = AtomicUsize::new(usize::MAX);
const REPORTED_CAP: usize = 256;
static REPORTED_N: AtomicUsize = AtomicUsize::new(0);
static HALT: std::sync::atomic::AtomicBool = std::sync::atomic::AtomicBool::new(false);
static REPORTED: [AtomicUsize; REPORTED_CAP] = [const { AtomicUsize::new(usize::MAX) }; REPORTED_CAP];

#[no_mangle]
pub extern "C" fn __tsan_on_report(_report: *mut std::ffi::c_void) {
    let cur = CURRENT.load(Ordering::Relaxed);
    let n = REPORTED_N.load(Ordering::Relaxed);
    if n > 0 && REPORTED[(n - 1) % REPORTED_CAP].load(Ordering::Relaxed) == cur {
        return;
    }
    let k = REPORTED_N.fetch_add(1, Ordering::Relaxed);
    if k < REPORTED_CAP {
        REPORTED[k].store(cur, Ordering::Relaxed);
    }
}

fn reported_scenarios() -> Vec<usize> {
    let n = REPORTED_N.load(Ordering::Relaxed).min(REPORTED_CAP);
    let mut v: Vec<usize> = (0..n).map(|k| REPORTED[k].load(Ordering::Relaxed)).filter(|x| *x != usize::MAX).collect();
    v.sort_unstable();
    v.dedup();
    v
}

fn show<T: std::fmt::Debug>(r: T) -> String {
    format!("{:?}", r)
}

fn guarded<F: FnOnce() -> String>(f: F) -> String {
    match catch_unwind(AssertUnwindSafe(f)) {
        Ok(s) => s,
        Err(_) => "PANIC".to_string(),
    }
}

macro_rules! per_profile {
    ($calls:ident, $name:expr, $t:ty) => {{
        for (k, s) in INPUTS.iter().enumerate() {
            let s: &'static str = s;
            $calls.push((format!("{}::prepare(static) #{}", $name, k), Box::new(move |_: &Path| show(<$t as PrecisFastInvocation>::prepare(s))) as Call));
            $calls.push((format!("{}::enforce(static) #{}", $name, k), Box::new(move |_: &Path| show(<$t as PrecisFastInvocation>::enforce(s))) as Call));
            $calls.push((format!("{}::compare(static) #{}", $name, k), Box::new(move |_: &Path| show(<$t as PrecisFastInvocation>::compare(s, "Guybrush"))) as Call));
            $calls.push((
                format!("{}::new() prepare+enforce+compare #{}", $name, k),
                Box::new(move |_: &Path| {
                    let p = <$t>::new();
                    format!("{:?} {:?} {:?}", p.prepare(s), p.enforce(s), p.compare(s, s))
                }) as Call,
            ));
            $calls.push((
                format!("{}::new() rules #{}", $name, k),
                Box::new(move |_: &Path| {
                    let p = <$t>::new();
                    format!(
                        "{:?} {:?} {:?} {:?} {:?} | {:?} {:?}",
                        p.width_mapping_rule(s),
                        p.additional_mapping_rule(s),
                        p.case_mapping_rule(s),
                        p.normalization_rule(s),
                        p.directionality_rule(s),
                        p.case_mapping_rule(s.to_string()),
                        p.normalization_rule(s.to_string())
                    )
                }) as Call,
            ));
        }
    }};
}

fn lib_calls() -> Vec<(String, Call)> {
    let mut calls: Vec<(String, Call)> = Vec::new();
    per_profile!(calls, "Nickname", Nickname);
    per_profile!(calls, "OpaqueString", OpaqueString);
    per_profile!(calls, "UsernameCaseMapped", UsernameCaseMapped);
    per_profile!(calls, "UsernameCasePreserved", UsernameCasePreserved);
    for (k, s) in INPUTS.iter().enumerate() {
        let s: &'static str = s;
        calls.push((
            format!("classes #{}", k),
            Box::new(move |_: &Path| {
                let (i, f) = (IdentifierClass::default(), FreeformClass::default());
                let mut o = format!("{:?} {:?}", i.allows(s), f.allows(s));
                for c in s.chars() {
                    o.push_str(&format!(" {:?}/{:?}", i.get_value_from_char(c), f.get_value_from_codepoint(c as u32)));
                }
                o
            }),
        ));
        calls.push((
            format!("context rules #{}", k),
            Box::new(move |_: &Path| {
                use precis_core::context::*;
                let rules: [(&str, ContextRule); 8] = [
                    ("zwnj", rule_zero_width_nonjoiner),
                    ("zwj", rule_zero_width_joiner),
                    ("middle_dot", rule_middle_dot),
                    ("keraia", rule_greek_lower_numeral_sign_keraia),
                    ("hebrew", rule_hebrew_punctuation),
                    ("katakana", rule_katakana_middle_dot),
                    ("arabic_indic", rule_arabic_indic_digits),
                    ("ext_arabic_indic", rule_extended_arabic_indic_digits),
                ];
                let mut o = String::new();
                for (pos, c) in s.chars().enumerate() {
                    if let Some(r) = get_context_rule(c as u32) {
                        o.push_str(&format!("reg@{}={:?} ", pos, r(s, pos)));
                    }
                    for (n, r) in rules.iter() {
                        o.push_str(&format!("{}@{}={:?} ", n, pos, r(s, pos)));
                    }
                }
                o
            }),
        ));
    }
    calls
}

// ---- precis-tools: generator pipelines and the registry parser ------------------------------

const UNICODE_DATA: &[&str] = &[
    "0041;LATIN CAPITAL LETTER A;Lu;0;L;;;;;N;;;;0061;\n0042;LATIN CAPITAL LETTER B;Lu;0;L;;;;;N;;;;0062;\n0061;LATIN SMALL LETTER A;Ll;0;L;;;;;N;;;0041;;0041\n0300;COMBINING GRAVE ACCENT;Mn;230;NSM;;;;;N;;;;;\n094D;DEVANAGARI SIGN VIRAMA;Mn;9;NSM;;;;;N;;;;;\nFF21;FULLWIDTH LATIN CAPITAL LETTER A;Lu;0;L;<wide> 0041;;;;N;;;;FF41;\n",
    "0030;DIGIT ZERO;Nd;0;EN;;0;0;0;N;;;;;\n0031;DIGIT ONE;Nd;0;EN;;1;1;1;N;;;;;\n05D0;HEBREW LETTER ALEF;Lo;0;R;;;;;N;;;;;\n3400;<CJK Ideograph Extension A, First>;Lo;0;L;;;;;N;;;;;\n4DB5;<CJK Ideograph Extension A, Last>;Lo;0;L;;;;;N;;;;;\nFF71;HALFWIDTH KATAKANA LETTER A;Lo;0;L;<narrow> 30A2;;;;N;;;;;\n",
    "0020;SPACE;Zs;0;WS;;;;;N;;;;;\n00A0;NO-BREAK SPACE;Zs;0;CS;<noBreak> 0020;;;;N;;;;;\n0660;ARABIC-INDIC DIGIT ZERO;Nd;0;AN;;0;0;0;N;;;;;\n0BCD;TAMIL SIGN VIRAMA;Mn;9;NSM;;;;;N;;;;;\n10FFFD;PLANE 16 PRIVATE USE, LAST;Co;0;L;;;;;N;;;;;\n",
];

const PROP_FILES: &[&str] = &[
    "0041..005A    ; P # L&  [26] A..Z\n0061          ; Q # L&       a\n00C0..00D6    ; P # L&  [23] X..Y\n",
    "0370..0373    ; Q # L&   [4] X..Y\n0375          ; P # Sk       X\n0376..0377    ; Q # L&   [2] X..Y\n1F00..1F15    ; Q # L&  [22] X..Y\n",
    "3041..3096    ; P # Lo  [86] X..Y\n309D..309E    ; P # Lm   [2] X..Y\n30A1..30FA    ; Q # Lo  [90] X..Y\n",
];

fn scratch(base: &Path, tag: &str) -> PathBuf {
    let id = format!("{}-{:?}", tag, std::thread::current().id()).replace(['(', ')'], "");
    let d = base.join(id);
    let _ = std::fs::remove_dir_all(&d);
    let _ = std::fs::create_dir_all(&d);
    d
}

fn gen_unicode_data(dir: &Path, text: &str) -> String {
    use precis_tools::*;
    if std::fs::write(dir.join("UnicodeData.txt"), text).is_err() {
        return "cannot write input".into();
    }
    let out = dir.join("out.rs");
    let r = (|| -> Result<(), String> {
        let mut gen = RustCodeGen::new(&out).map_err(|e| e.to_string())?;
        let mut ucd_gen = UcdFileGen::new(dir);
        let mut gc = GeneralCategoryGen::new();
        gc.add(Box::new(UcdTableGen::new("Lu", "t_lu")));
        gc.add(Box::new(UcdTableGen::new("Mn", "t_mn")));
        gc.add(Box::new(UcdTableGen::new("Nd", "t_nd")));
        gc.add(Box::new(UcdTableGen::new("Zs", "t_zs")));
        gc.add(Box::new(UnassignedTableGen::new("t_unassigned")));
        gc.add(Box::new(ViramaTableGen::new("t_virama")));
        gc.add(Box::new(WidthMappingTableGen::new("t_width")));
        gc.add(Box::new(BidiClassGen::new("t_bidi")));
        ucd_gen.add(Box::new(gc));
        gen.add(Box::new(ucd_gen));
        gen.generate_code().map_err(|e| e.to_string())?;
        Ok(())
    })();
    match r {
        Err(e) => format!("generator error: {}", e),
        Ok(()) => std::fs::read_to_string(&out).unwrap_or_else(|e| e.to_string()),
    }
}

fn gen_prop(dir: &Path, rel: &str, kind: usize, text: &str) -> String {
    use precis_tools::*;
    let p = dir.join(rel);
    if let Some(parent) = p.parent() {
        let _ = std::fs::create_dir_all(parent);
    }
    if std::fs::write(&p, format!("# synthetic\n\n{}\n# EOF\n", text)).is_err() {
        return "cannot write input".into();
    }
    let out = dir.join("out.rs");
    let r = (|| -> Result<(), String> {
        let mut gen = RustCodeGen::new(&out).map_err(|e| e.to_string())?;
        let mut ucd_gen = UcdFileGen::new(dir);
        macro_rules! add {
            ($t:ty) => {{
                let mut g: UnicodeGen<$t> = UnicodeGen::new();
                g.add(Box::new(UcdTableGen::new("P", "t_p")));
                g.add(Box::new(UcdTableGen::new("Q", "t_q")));
                ucd_gen.add(Box::new(g));
            }};
        }
        match kind {
            0 => add!(ucd_parse::Script),
            1 => add!(ucd_parse::Property),
            _ => add!(ucd_parse::CoreProperty),
        }
        gen.add(Box::new(ucd_gen));
        gen.generate_code().map_err(|e| e.to_string())?;
        Ok(())
    })();
    match r {
        Err(e) => format!("generator error: {}", e),
        Ok(()) => std::fs::read_to_string(&out).unwrap_or_else(|e| e.to_string()),
    }
}

const CSV_FILES: &[&str] = &[
    "Codepoint,Property,Description\n0000-002C,DISALLOWED,NULL..COMMA\n002D,PVALID,HYPHEN-MINUS\n00B7,CONTEXTO,MIDDLE DOT\n",
    "Codepoint,Property,Description\n200C-200D,CONTEXTJ,ZERO WIDTH NON-JOINER..ZERO WIDTH JOINER\n0378-0379,UNASSIGNED,<reserved>\n00A0,FREE_PVAL or ID_DIS,NO-BREAK SPACE\n",
    "Codepoint,Property,Description\n0041,ID_DIS or FREE_PVAL,LATIN CAPITAL LETTER A\nzz,PVALID,bad row\n0061-007A,PVALID,a..z\n",
];

fn parse_csv(dir: &Path, text: &str) -> String {
    use precis_tools::*;
    let p = dir.join("precis-tables.csv");
    if std::fs::write(&p, text).is_err() {
        return "cannot write input".into();
    }
    let mut o = String::new();
    match CsvLineParser::<_, PrecisDerivedProperty>::from_path(&p) {
        Err(e) => o.push_str(&format!("open error: {}", e)),
        Ok(parser) => {
            for row in parser {
                match row {
                    Ok(r) => o.push_str(&format!("{:?};", r)),
                    Err(e) => o.push_str(&format!("ERR({});", e)),
                }
            }
        }
    }
    o
}

fn tools_calls() -> Vec<(String, Call)> {
    let mut calls: Vec<(String, Call)> = Vec::new();
    for (k, t) in UNICODE_DATA.iter().enumerate() {
        let t: &'static str = t;
        calls.push((format!("UnicodeData generators #{}", k), Box::new(move |b: &Path| gen_unicode_data(&scratch(b, "ud"), t))));
    }
    for (k, t) in PROP_FILES.iter().enumerate() {
        let t: &'static str = t;
        for (kind, rel) in [(0usize, "Scripts.txt"), (1, "PropList.txt"), (2, "DerivedCoreProperties.txt")] {
            calls.push((format!("{} generators #{}", rel, k), Box::new(move |b: &Path| gen_prop(&scratch(b, "prop"), rel, kind, t))));
        }
    }
    for (k, t) in CSV_FILES.iter().enumerate() {
        let t: &'static str = t;
        calls.push((format!("registry csv #{}", k), Box::new(move |b: &Path| parse_csv(&scratch(b, "csv"), t))));
    }
    calls
}

fn suite(name: &str) -> Vec<(String, Call)> {
    match name {
        "lib" => lib_calls(),
        "tools" => tools_calls(),
        _ => {
            eprintln!("unknown suite {}", name);
            std::process::exit(2);
        }
    }
}

fn run_call(c: &Call, base: &Path) -> String {
    guarded(|| c(base)).replace('\n', "\\n")
}

fn main() {
    std::panic::set_hook(Box::new(|_| {}));
    let args: Vec<String> = std::env::args().collect();
    if args.len() < 3 {
        eprintln!("usage: pmc-race first|pairs|one|count|name <suite> ...");
        std::process::exit(2);
    }
    let base = PathBuf::from(std::env::var("PMC_RACE_SCRATCH").unwrap_or_else(|_| "/tmp/pmc-race-scratch".into())).join(format!("p{}", std::process::id()));
    let calls = Arc::new(suite(&args[2]));
    let num = |i: usize| -> usize { args.get(i).and_then(|x| x.parse().ok()).unwrap_or(0) };
    match args[1].as_str() {
        "count" => println!("{}", calls.len()),
        "name" => println!("{}", calls.get(num(3)).map(|c| c.0.clone()).unwrap_or_default()),
        "first" => {
            let i = num(3);
            if i >= calls.len() {
                std::process::exit(2);
            }
            let barrier = Arc::new(Barrier::new(3));
            let hs: Vec<_> = (0..3)
                .map(|_| {
                    let (calls, barrier, base) = (calls.clone(), barrier.clone(), base.clone());
                    std::thread::spawn(move || {
                        barrier.wait();
                        let a = run_call(&calls[i].1, &base);
                        let b = run_call(&calls[i].1, &base);
                        (a, b)
                    })
                })
                .collect();
            let got: Vec<(String, String)> = hs.into_iter().map(|h| h.join().unwrap_or_else(|_| ("THREAD-PANIC".into(), "THREAD-PANIC".into()))).collect();
            let exp = run_call(&calls[i].1, &base);
            for (t, (a, b)) in got.iter().enumerate() {
                for (which, g) in [("1st", a), ("2nd", b)] {
                    if *g != exp {
                        println!("MISMATCH first {} {} thread={} {} call got={} expected={}", i, i, t, which, g, exp);
                    }
                }
            }
            if REPORTED_N.load(Ordering::Relaxed) > 0 {
                println!("RACE-IN first {} {}", i, i);
            }
            println!("DONE 1");
        }
        "pairs" | "one" => {
            let n = calls.len();
            let expected: Arc<Vec<String>> = Arc::new(calls.iter().map(|c| run_call(&c.1, &base)).collect());
            let mut pairs: Vec<(usize, usize)> = Vec::new();
            if args[1] == "one" {
                pairs.push((num(3).min(n - 1), num(4).min(n - 1)));
            } else {
                let (k, m) = (num(3), num(4).max(1));
                let mut idx = 0usize;
                for i in 0..n {
                    for j in i..n {
                        if idx % m == k {
                            pairs.push((i, j));
                        }
                        idx += 1;
                    }
                }
            }
            let pairs = Arc::new(pairs);
            let barrier = Arc::new(Barrier::new(2));
            let hs: Vec<_> = (0..2)
                .map(|t| {
                    let (calls, barrier, base, pairs, expected) = (calls.clone(), barrier.clone(), base.clone(), pairs.clone(), expected.clone());
                    std::thread::spawn(move || {
                        let mut out = Vec::new();
                        for (k, &(i, j)) in pairs.iter().enumerate() {
                            let mine = if t == 0 { i } else { j };
                            if t == 0 {
                                CURRENT.store(k, Ordering::Relaxed);
                                // enough evidence: a racy subject produces a report per scenario, and the
                                // reports of one shard would run to hundreds of megabytes
                                if REPORTED_N.load(Ordering::Relaxed) >= 48 {
                                    HALT.store(true, Ordering::Relaxed);
                                }
                            }
                            barrier.wait();
                            if HALT.load(Ordering::Relaxed) {
                                break;
                            }
                            let g = run_call(&calls[mine].1, &base);
                            if g != expected[mine] {
                                out.push(format!("MISMATCH pair {} {} thread={} call {} got={} expected={}", i, j, t, mine, g, expected[mine]));
                            }
                            barrier.wait();
                        }
                        out
                    })
                })
                .collect();
            for h in hs {
                match h.join() {
                    Ok(v) => v.iter().for_each(|l| println!("{}", l)),
                    Err(_) => println!("MISMATCH pair 0 0 thread=? THREAD-PANIC"),
                }
            }
            for k in reported_scenarios() {
                if let Some((i, j)) = pairs.get(k) {
                    println!("RACE-IN pair {} {}", i, j);
                }
            }
            if HALT.load(Ordering::Relaxed) {
                println!("HALTED after {} scenarios with reports (the remaining scenarios of this shard were not run)", REPORTED_N.load(Ordering::Relaxed));
            }
            println!("DONE {}", pairs.len());
        }
        _ => std::process::exit(2),
    }
    let _ = std::fs::remove_dir_all(&base);
}
