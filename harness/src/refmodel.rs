//! Boring executable reference models, written from the RFC text.
//! Nothing here calls into precis-core / precis-profiles / precis-tools.

use crate::subject::{Class, CtxRule, DP, E};
use crate::ucd::{inset, PropFile, Ucd63, UnicodeData};
use std::path::Path;
use unicode_normalization::UnicodeNormalization;

// ---------------------------------------------------------------------------
// Derived property (RFC 8264 section 8 + RFC 5892 2.6 exceptions)
// ---------------------------------------------------------------------------

/// RFC 5892 section 2.6 Exceptions (F), written out from the RFC.
pub fn exception(cp: u32) -> Option<DP> {
    match cp {
        0x00DF | 0x03C2 | 0x06FD | 0x06FE | 0x0F0B | 0x3007 => Some(DP::PValid),
        0x00B7 | 0x0375 | 0x05F3 | 0x05F4 | 0x30FB => Some(DP::ContextO),
        0x0660..=0x0669 | 0x06F0..=0x06F9 => Some(DP::ContextO),
        0x0640 | 0x07FA | 0x302E | 0x302F | 0x3031..=0x3035 | 0x303B => Some(DP::Disallowed),
        _ => None,
    }
}

pub fn has_compat(cp: u32) -> bool {
    match char::from_u32(cp) {
        None => false,
        Some(c) => {
            let mut it = std::iter::once(c).nfkc();
            !(it.next() == Some(c) && it.next().is_none())
        }
    }
}

/// The decision list, in the RFC's order. `class` selects ID_DIS vs FREE_PVAL.
pub fn derived_property(u: &Ucd63, cp: u32, class: Class) -> DP {
    let spec = match class {
        Class::Identifier => DP::SpecDis,
        Class::Freeform => DP::SpecPval,
    };
    if cp > 0x10FFFF {
        // not a code point at all: never valid
        return DP::Disallowed;
    }
    if let Some(v) = exception(cp) {
        return v;
    }
    // BackwardCompatible (G) is empty.
    let gc = u.ud.gc(cp);
    if gc == "Cn" && !inset(&u.nonchar, cp) {
        return DP::Unassigned;
    }
    if (0x21..=0x7E).contains(&cp) {
        return DP::PValid;
    }
    if inset(&u.join_control, cp) {
        return DP::ContextJ;
    }
    if inset(&u.hangul_l, cp) || inset(&u.hangul_v, cp) || inset(&u.hangul_t, cp) {
        return DP::Disallowed;
    }
    if inset(&u.default_ignorable, cp) || inset(&u.nonchar, cp) {
        return DP::Disallowed;
    }
    if gc == "Cc" {
        return DP::Disallowed;
    }
    if has_compat(cp) {
        return spec;
    }
    if matches!(gc, "Ll" | "Lu" | "Lo" | "Nd" | "Lm" | "Mn" | "Mc") {
        return DP::PValid;
    }
    if matches!(gc, "Lt" | "Nl" | "No" | "Me") {
        return spec;
    }
    if gc == "Zs" {
        return spec;
    }
    if matches!(gc, "Sm" | "Sc" | "Sk" | "So") {
        return spec;
    }
    if matches!(gc, "Pc" | "Pd" | "Ps" | "Pe" | "Pi" | "Pf" | "Po") {
        return spec;
    }
    DP::Disallowed
}

/// IANA registry rows read by a splitter of our own (not precis-tools).
pub struct Registry {
    /// (identifier value, freeform value) per code point; None = not listed
    pub vals: Vec<Option<(DP, DP)>>,
    pub rows: usize,
}

fn reg_word(w: &str) -> Result<(Option<DP>, Option<DP>), String> {
    // returns (value for identifier, value for freeform) the word pins
    Ok(match w {
        "PVALID" => (Some(DP::PValid), Some(DP::PValid)),
        "CONTEXTJ" => (Some(DP::ContextJ), Some(DP::ContextJ)),
        "CONTEXTO" => (Some(DP::ContextO), Some(DP::ContextO)),
        "DISALLOWED" => (Some(DP::Disallowed), Some(DP::Disallowed)),
        "UNASSIGNED" => (Some(DP::Unassigned), Some(DP::Unassigned)),
        "ID_DIS" => (Some(DP::SpecDis), None),
        "FREE_PVAL" => (None, Some(DP::SpecPval)),
        _ => return Err(format!("unknown registry word '{}'", w)),
    })
}

impl Registry {
    pub fn load(path: &Path) -> Result<Registry, String> {
        let text = std::fs::read_to_string(path).map_err(|e| format!("{}: {}", path.display(), e))?;
        let mut vals: Vec<Option<(DP, DP)>> = vec![None; 0x110000];
        let mut rows = 0;
        for (i, line) in text.lines().enumerate() {
            if i == 0 || line.trim().is_empty() {
                continue;
            }
            let c1 = line.find(',').ok_or("no comma")?;
            let rest = &line[c1 + 1..];
            let c2 = rest.find(',').ok_or("no second comma")?;
            let cps = &line[..c1];
            let prop = &rest[..c2];
            let (s, e) = match cps.find('-') {
                Some(k) => (
                    u32::from_str_radix(&cps[..k], 16).map_err(|e| e.to_string())?,
                    u32::from_str_radix(&cps[k + 1..], 16).map_err(|e| e.to_string())?,
                ),
                None => {
                    let v = u32::from_str_radix(cps, 16).map_err(|e| e.to_string())?;
                    (v, v)
                }
            };
            let mut id = None;
            let mut ff = None;
            for w in prop.split(" or ") {
                let (a, b) = reg_word(w.trim())?;
                if a.is_some() {
                    id = a;
                }
                if b.is_some() {
                    ff = b;
                }
            }
            let (id, ff) = match (id, ff) {
                (Some(a), Some(b)) => (a, b),
                _ => return Err(format!("registry line {} pins only one class: {}", i + 1, line)),
            };
            for cp in s..=e {
                if vals[cp as usize].is_some() {
                    return Err(format!("registry lists {:04X} twice", cp));
                }
                vals[cp as usize] = Some((id, ff));
            }
            rows += 1;
        }
        Ok(Registry { vals, rows })
    }
    pub fn get(&self, cp: u32, class: Class) -> Option<DP> {
        if cp as usize >= self.vals.len() {
            return None;
        }
        self.vals[cp as usize].map(|(a, b)| match class {
            Class::Identifier => a,
            Class::Freeform => b,
        })
    }
}

/// Set of code points with NFKC(c) != c according to CPython (second opinion).
pub fn load_cpython_hascompat(path: &Path) -> Result<Vec<bool>, String> {
    let pf = std::fs::read_to_string(path).map_err(|e| format!("{}: {}", path.display(), e))?;
    let mut v = vec![false; 0x110000];
    for line in pf.lines() {
        if line.starts_with('#') || line.trim().is_empty() {
            continue;
        }
        let cp = u32::from_str_radix(line.trim(), 16).map_err(|e| e.to_string())?;
        v[cp as usize] = true;
    }
    Ok(v)
}

// ---------------------------------------------------------------------------
// Context rules (RFC 5892 Appendix A), declarative
// ---------------------------------------------------------------------------

/// What the RFC says about (rule, label, position).
#[derive(Copy, Clone, PartialEq, Eq, Hash, Debug)]
pub enum CtxExpect {
    /// position is outside the label
    Outside,
    /// the code point at the position does not belong to the rule
    NotOwn,
    /// RFC condition holds
    True,
    /// RFC condition does not hold, and a neighbour the rule names lies outside the label
    FalseAtBoundary,
    /// RFC condition does not hold, everything it inspects is inside the label
    FalseInside,
}

pub fn ctx_expect(u: &Ucd63, rule: CtxRule, l: &[u32], i: usize) -> CtxExpect {
    if i >= l.len() {
        return CtxExpect::Outside;
    }
    if !rule.owns(l[i]) {
        return CtxExpect::NotOwn;
    }
    let n = l.len();
    let (truth, boundary) = match rule {
        CtxRule::Zwnj => {
            let virama = i > 0 && u.virama(l[i - 1]);
            // nearest non-transparent on the left / right
            let j = (0..i).rev().find(|&j| !inset(&u.jt_t, l[j]));
            let k = (i + 1..n).find(|&k| !inset(&u.jt_t, l[k]));
            let regex = match (j, k) {
                (Some(j), Some(k)) => {
                    (inset(&u.jt_l, l[j]) || inset(&u.jt_d, l[j]))
                        && (inset(&u.jt_r, l[k]) || inset(&u.jt_d, l[k]))
                }
                _ => false,
            };
            (virama || regex, i == 0 || j.is_none() || k.is_none())
        }
        CtxRule::Zwj => (i > 0 && u.virama(l[i - 1]), i == 0),
        CtxRule::MiddleDot => (
            i > 0 && i + 1 < n && l[i - 1] == 0x6c && l[i + 1] == 0x6c,
            i == 0 || i + 1 == n,
        ),
        CtxRule::Keraia => (i + 1 < n && inset(&u.greek, l[i + 1]), i + 1 == n),
        CtxRule::HebrewPunct => (i > 0 && inset(&u.hebrew, l[i - 1]), i == 0),
        CtxRule::KatakanaDot => (
            l.iter()
                .any(|&x| inset(&u.hiragana, x) || inset(&u.katakana, x) || inset(&u.han, x)),
            false,
        ),
        CtxRule::ArabicIndic => (!l.iter().any(|x| (0x06f0..=0x06f9).contains(x)), false),
        CtxRule::ExtArabicIndic => (!l.iter().any(|x| (0x0660..=0x0669).contains(x)), false),
    };
    if truth {
        CtxExpect::True
    } else if boundary {
        CtxExpect::FalseAtBoundary
    } else {
        CtxExpect::FalseInside
    }
}

/// Is `actual` one of the answers the property allows for this expectation?
pub fn ctx_acceptable(exp: CtxExpect, actual: &crate::subject::CtxOut) -> bool {
    use crate::subject::CtxOut as O;
    match exp {
        CtxExpect::Outside => matches!(actual, O::Undefined | O::NotApplicable),
        CtxExpect::NotOwn => matches!(actual, O::NotApplicable),
        CtxExpect::True => matches!(actual, O::Ok(true)),
        CtxExpect::FalseAtBoundary => matches!(actual, O::Ok(false) | O::Undefined),
        CtxExpect::FalseInside => matches!(actual, O::Ok(false)),
    }
}

// ---------------------------------------------------------------------------
// allows()
// ---------------------------------------------------------------------------

/// Expected result of `StringClass::allows`.
#[derive(Clone, PartialEq, Eq, Hash, Debug)]
pub enum AllowsExpect {
    Accept,
    /// first offender (cp, index in code points, its value); `undefined_ok`: the
    /// undefined-context error is acceptable as well; `no_rule`: the offender is a
    /// contextual code point without any RFC 5892 rule (only user classes get here)
    Reject {
        cp: u32,
        idx: usize,
        dp: DP,
        undefined_ok: bool,
        no_rule: bool,
    },
}

pub fn ref_allows<F: Fn(u32) -> DP>(u: &Ucd63, dp_of: F, l: &[u32]) -> AllowsExpect {
    for (i, &cp) in l.iter().enumerate() {
        let v = dp_of(cp);
        match v {
            DP::PValid | DP::SpecPval => {}
            DP::SpecDis | DP::Disallowed | DP::Unassigned => {
                return AllowsExpect::Reject {
                    cp,
                    idx: i,
                    dp: v,
                    undefined_ok: false,
                    no_rule: false,
                }
            }
            DP::ContextJ | DP::ContextO => match CtxRule::owner_of(cp) {
                None => {
                    return AllowsExpect::Reject {
                        cp,
                        idx: i,
                        dp: v,
                        undefined_ok: false,
                        no_rule: true,
                    }
                }
                Some(r) => match ctx_expect(u, r, l, i) {
                    CtxExpect::True => {}
                    CtxExpect::FalseAtBoundary => {
                        return AllowsExpect::Reject {
                            cp,
                            idx: i,
                            dp: v,
                            undefined_ok: true,
                            no_rule: false,
                        }
                    }
                    _ => {
                        return AllowsExpect::Reject {
                            cp,
                            idx: i,
                            dp: v,
                            undefined_ok: false,
                            no_rule: false,
                        }
                    }
                },
            },
        }
    }
    AllowsExpect::Accept
}

/// Does an error produced by the implementation match the expected rejection?
pub fn reject_matches(exp: &AllowsExpect, e: &E) -> bool {
    match exp {
        AllowsExpect::Accept => false,
        AllowsExpect::Reject {
            cp,
            idx,
            dp,
            undefined_ok,
            no_rule,
        } => {
            if *no_rule {
                // user class marks as contextual a code point RFC 5892 has no rule for:
                // any error that names this code point is acceptable
                return matches!(e, E::MissingRule(c, i, d) | E::Bad(c, i, d) | E::CtxNotApplicable(c, i, d)
                    if c == cp && i == idx && d == dp);
            }
            match e {
                E::Bad(c, i, d) => c == cp && i == idx && d == dp,
                E::Undefined => *undefined_ok,
                _ => false,
            }
        }
    }
}

// ---------------------------------------------------------------------------
// Bidi rule (RFC 5893 section 2) as set predicates over the class sequence
// ---------------------------------------------------------------------------

pub const BIDI_CLASSES: [&str; 23] = [
    "L", "R", "AL", "AN", "EN", "ES", "CS", "ET", "ON", "BN", "NSM", "B", "S", "WS", "LRE", "LRO",
    "RLE", "RLO", "PDF", "LRI", "RLI", "FSI", "PDI",
];

/// `None` = the rule does not apply (no R/AL/AN): accept unchanged.
/// `Some(b)` = label is judged; b = all six conditions hold.
pub fn ref_bidi(q: &[&str]) -> Option<bool> {
    if !q.iter().any(|c| matches!(*c, "R" | "AL" | "AN")) {
        return None;
    }
    let first = q[0];
    let rtl = match first {
        "R" | "AL" => true,
        "L" => false,
        _ => return Some(false),
    };
    let last = q.iter().rev().find(|c| **c != "NSM");
    let last = match last {
        Some(l) => *l,
        None => return Some(false),
    };
    if rtl {
        let allowed = q.iter().all(|c| {
            matches!(
                *c,
                "R" | "AL" | "AN" | "EN" | "ES" | "CS" | "ET" | "ON" | "BN" | "NSM"
            )
        });
        let end_ok = matches!(last, "R" | "AL" | "EN" | "AN");
        let mixed = q.iter().any(|c| *c == "EN") && q.iter().any(|c| *c == "AN");
        Some(allowed && end_ok && !mixed)
    } else {
        let allowed = q
            .iter()
            .all(|c| matches!(*c, "L" | "EN" | "ES" | "CS" | "ET" | "ON" | "BN" | "NSM"));
        let end_ok = matches!(last, "L" | "EN");
        Some(allowed && end_ok)
    }
}

/// Bidi class of a code point per UnicodeData; code points it does not list are
/// treated as L (the rule is only ever reached with assigned code points).
pub fn bidi_of(ud: &UnicodeData, cp: u32) -> &str {
    ud.bidi(cp).unwrap_or("L")
}

// ---------------------------------------------------------------------------
// Step models for the profiles
// ---------------------------------------------------------------------------

pub fn ref_width(ud16: &UnicodeData, s: &str) -> String {
    s.chars()
        .map(|c| match ud16.width_map(c as u32) {
            Some(m) => char::from_u32(m).unwrap_or(c),
            None => c,
        })
        .collect()
}

pub fn ref_lower(s: &str) -> String {
    s.chars().flat_map(|c| c.to_lowercase()).collect()
}

pub fn ref_nfc(s: &str) -> String {
    s.nfc().collect()
}

pub fn ref_nfkc(s: &str) -> String {
    s.nfkc().collect()
}

pub fn is_zs(ud16: &UnicodeData, c: char) -> bool {
    ud16.gc(c as u32) == "Zs"
}

pub fn ref_space_nick(ud16: &UnicodeData, s: &str) -> String {
    let mapped: String = s
        .chars()
        .map(|c| if is_zs(ud16, c) { ' ' } else { c })
        .collect();
    mapped
        .split(' ')
        .filter(|t| !t.is_empty())
        .collect::<Vec<_>>()
        .join(" ")
}

pub fn ref_space_opaque(ud16: &UnicodeData, s: &str) -> String {
    s.chars()
        .map(|c| if c != ' ' && is_zs(ud16, c) { ' ' } else { c })
        .collect()
}

/// RFC 8264 section 7: first application plus three re-applications.
/// Returns (result, number of applications made).
pub fn ref_stabilize<F: FnMut(&str) -> Result<String, E>>(s0: &str, mut f: F) -> (Result<String, E>, usize) {
    let mut cur = s0.to_string();
    for a in 1..=4 {
        match f(&cur) {
            Err(e) => return (Err(e), a),
            Ok(r) => {
                if r == cur {
                    return (Ok(cur), a);
                }
                cur = r;
            }
        }
    }
    (Err(E::Invalid), 4)
}

pub fn load_propfile(path: &Path) -> Result<PropFile, String> {
    PropFile::load(path)
}
