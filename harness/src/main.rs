use pmc::engine::{self, Case, Run, Tier};
use pmc::env::Env;
use pmc::props;
use std::time::Instant;

fn usage() -> ! {
    eprintln!("usage: pmc <C01..C18> [--tier quick|thorough] [--replay <file>]");
    std::process::exit(2);
}

fn main() {
    let args: Vec<String> = std::env::args().collect();
    if args.len() < 2 {
        usage();
    }
    if args[1] == "__first" {
        let idx = args.get(2).and_then(|s| s.parse::<usize>().ok()).unwrap_or(usize::MAX);
        std::process::exit(props::c16::child_first(idx));
    }
    if args[1] == "__genlimit" {
        std::process::exit(props::c15::child_genlimit(args.get(2).map(|s| s.as_str()).unwrap_or("."), args.get(3).and_then(|s| s.parse().ok()).unwrap_or(0)));
    }
    if args[1] == "__tlsdtor" {
        let g = |i: usize| args.get(i).and_then(|s| s.parse::<usize>().ok()).unwrap_or(0);
        std::process::exit(props::c01::child_tls_dtor(g(2), g(3)));
    }
    if args[1] == "__expect" {
        std::process::exit(props::c16::child_expect());
    }
    if args[1] == "__stress" {
        let g = |i: usize, d: u64| args.get(i).and_then(|s| s.parse::<u64>().ok()).unwrap_or(d);
        std::process::exit(props::c16::child_stress(g(2, 0), g(3, 4) as usize, g(4, 1000) as usize));
    }
    let prop = args[1].clone();
    let mut tier = match std::env::var("VERIF_TIER").ok().as_deref() {
        Some("thorough") => Tier::Thorough,
        _ => Tier::Quick,
    };
    let mut replay_file: Option<String> = None;
    let mut i = 2;
    while i < args.len() {
        match args[i].as_str() {
            "--tier" => {
                i += 1;
                tier = match args.get(i).map(|s| s.as_str()) {
                    Some("quick") => Tier::Quick,
                    Some("thorough") => Tier::Thorough,
                    _ => usage(),
                };
            }
            "--replay" => {
                i += 1;
                replay_file = args.get(i).cloned();
                if replay_file.is_none() {
                    usage();
                }
            }
            _ => usage(),
        }
        i += 1;
    }
    let seed = std::env::var("VERIF_SEED")
        .ok()
        .and_then(|s| s.parse::<u64>().ok())
        .unwrap_or(0);
    if std::env::var("PMC_DEEP").map(|v| v == "1").unwrap_or(false) {
        // no evidence is written by this pass either
        engine::LITE.store(true, std::sync::atomic::Ordering::Relaxed);
        engine::DEEP.store(true, std::sync::atomic::Ordering::Relaxed);
    }
    if std::env::var("PMC_LITE").map(|v| v == "1").unwrap_or(false) {
        engine::LITE.store(true, std::sync::atomic::Ordering::Relaxed);
    }
    pmc::subject::silence_panics();
    let known = match engine::load_known_findings() {
        Ok(k) => k,
        Err(e) => {
            println!("MACHINERY-ERROR {}", e);
            std::process::exit(2);
        }
    };
    let run = Run {
        prop: prop.clone(),
        tier,
        seed,
        start: Instant::now(),
        known,
    };
    let env = match Env::load() {
        Ok(e) => e,
        Err(e) => {
            println!("MACHINERY-ERROR cannot load reference data: {}", e);
            std::process::exit(2);
        }
    };
    let code = props::dispatch(&env, &run, replay_file.as_deref());
    std::process::exit(code);
}

#[allow(dead_code)]
fn _unused(_: Case) {}
