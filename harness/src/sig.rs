//! Behaviour signatures of code points and seed-driven rotation of alphabet
//! representatives (DESIGN 3.2). Two code points with equal signatures are
//! indistinguishable to every predicate the crates evaluate, so either can
//! stand for the class in the string-tree alphabets. VERIF_SEED only chooses
//! *which member* represents a class; it never removes a class.

use crate::env::Env;
use crate::subject::{Class, CtxRule};
use crate::ucd::inset;
use rayon::prelude::*;
use std::collections::HashMap;
use std::hash::{Hash, Hasher};
use unicode_normalization::UnicodeNormalization;

#[derive(Hash, PartialEq, Eq, Clone, Debug)]
struct Sig {
    len: u8,
    dp_id: u8,
    dp_ff: u8,
    zs: bool,
    upper: bool,
    lower: bool,
    lower_len: u8,
    lower_self: bool,
    lower_utf8_len: u8,
    width: bool,
    bidi: String,
    gc: String,
    jt: u8,
    virama: bool,
    script: u8,
    ccc0: bool,
    nfc_changes: bool,
    nfkc_changes: bool,
    nfkc_space: bool,
    assigned63: bool,
}

fn sig_of(env: &Env, c: char) -> Sig {
    let cp = c as u32;
    let u = &env.u63;
    let lower: Vec<char> = c.to_lowercase().collect();
    let s = c.to_string();
    let nfc: String = s.nfc().collect();
    let nfkc: String = s.nfkc().collect();
    Sig {
        len: c.len_utf8() as u8,
        dp_id: env.dpt.get(Class::Identifier, c) as u8,
        dp_ff: env.dpt.get(Class::Freeform, c) as u8,
        zs: env.ud16.gc(cp) == "Zs",
        upper: c.is_uppercase(),
        lower: c.is_lowercase(),
        lower_len: lower.len() as u8,
        lower_self: lower.len() == 1 && lower[0] == c,
        lower_utf8_len: lower.iter().map(|x| x.len_utf8()).sum::<usize>() as u8,
        width: env.ud16.width_map(cp).is_some(),
        bidi: env.ud16.bidi(cp).unwrap_or("-").to_string(),
        gc: env.ud16.gc(cp).to_string(),
        jt: if inset(&u.jt_d, cp) { 1 } else if inset(&u.jt_l, cp) { 2 } else if inset(&u.jt_r, cp) { 3 } else if inset(&u.jt_t, cp) { 4 } else { 0 },
        virama: u.virama(cp),
        script: if inset(&u.greek, cp) { 1 } else if inset(&u.hebrew, cp) { 2 } else if inset(&u.hiragana, cp) { 3 } else if inset(&u.katakana, cp) { 4 } else if inset(&u.han, cp) { 5 } else { 0 },
        ccc0: env.ud16.ccc(cp) == 0 && u.ud.ccc(cp) == 0,
        nfc_changes: nfc != s,
        nfkc_changes: nfkc != s,
        nfkc_space: nfkc.contains(' '),
        assigned63: u.ud.assigned(cp),
    }
}

fn hash_sig(s: &Sig) -> u64 {
    let mut h = std::collections::hash_map::DefaultHasher::new();
    s.hash(&mut h);
    h.finish()
}

pub struct Classes {
    by_sig: HashMap<u64, Vec<u32>>,
    sig_of_cp: Vec<u64>,
    pub n_classes: usize,
}

impl Classes {
    pub fn build(env: &Env) -> Classes {
        let sigs: Vec<u64> = (0u32..0x110000)
            .into_par_iter()
            .map(|cp| match char::from_u32(cp) {
                Some(c) => hash_sig(&sig_of(env, c)),
                None => 0,
            })
            .collect();
        let mut by_sig: HashMap<u64, Vec<u32>> = HashMap::new();
        for (cp, s) in sigs.iter().enumerate() {
            if char::from_u32(cp as u32).is_some() {
                by_sig.entry(*s).or_default().push(cp as u32);
            }
        }
        let n = by_sig.len();
        Classes { by_sig, sig_of_cp: sigs, n_classes: n }
    }

    /// must this symbol keep its identity? (ASCII, contextual code points, anything that
    /// takes part in a normalisation interaction, combining marks)
    fn pinned(env: &Env, c: char) -> bool {
        let cp = c as u32;
        if cp < 0x80 || CtxRule::owner_of(cp).is_some() {
            return true;
        }
        let s = c.to_string();
        let nfkc: String = s.nfkc().collect();
        let nfd: String = s.nfd().collect();
        nfkc != s || nfd != s || env.ud16.ccc(cp) != 0 || cp == 0x10FFFF || cp == 0xFFFF
    }

    /// rotate the representatives of an alphabet by `seed` (seed 0 = as written)
    pub fn rotate(&self, env: &Env, alphabet: &[char], seed: u64) -> Vec<char> {
        if seed == 0 {
            return alphabet.to_vec();
        }
        let mut out: Vec<char> = Vec::new();
        for (i, &c) in alphabet.iter().enumerate() {
            if Self::pinned(env, c) {
                out.push(c);
                continue;
            }
            let members = &self.by_sig[&self.sig_of_cp[c as usize]];
            let start = (seed as usize).wrapping_mul(7919).wrapping_add(i * 31) % members.len();
            let mut pick = c;
            for k in 0..members.len().min(64) {
                let m = char::from_u32(members[(start + k) % members.len()]).unwrap();
                if !out.contains(&m) && !alphabet[i + 1..].contains(&m) && !Self::pinned(env, m) {
                    pick = m;
                    break;
                }
            }
            out.push(pick);
        }
        out
    }

    pub fn class_size(&self, c: char) -> usize {
        self.by_sig[&self.sig_of_cp[c as usize]].len()
    }
}

/// convenience used by the property modules
pub fn rotated(env: &Env, alphabet: Vec<char>, seed: u64) -> Vec<char> {
    if seed == 0 {
        return alphabet;
    }
    let cl = Classes::build(env);
    cl.rotate(env, &alphabet, seed)
}
