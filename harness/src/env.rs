//! Reference data shared by all checks.

use crate::refmodel::{load_cpython_hascompat, Registry};
use crate::subject::DpTable;
use crate::ucd::{repo_dir, verif_dir, Ucd63, UnicodeData};
use std::fs;

pub struct Env {
    pub u63: Ucd63,
    pub ud16: UnicodeData,
    pub dpt: DpTable,
    pub registry: Registry,
    pub py_hascompat: Vec<bool>,
    pub notes: Vec<String>,
}

impl Env {
    pub fn load() -> Result<Env, String> {
        let data = verif_dir().join("data");
        let mut notes = Vec::new();
        let u63 = Ucd63::load(&data.join("ucd-6.3.0"))?;
        // 6.3.0 inputs of the core crate: note (not fail) when the repo's copies moved
        for f in [
            "UnicodeData.txt",
            "PropList.txt",
            "DerivedCoreProperties.txt",
            "HangulSyllableType.txt",
            "Scripts.txt",
            "extracted/DerivedJoiningType.txt",
        ] {
            let a = fs::read(data.join("ucd-6.3.0").join(f)).map_err(|e| e.to_string())?;
            let b = fs::read(repo_dir().join("precis-core/resources/ucd").join(f)).unwrap_or_default();
            if a != b {
                notes.push(format!(
                    "repo's precis-core/resources/ucd/{} differs from the pinned 6.3.0 copy; the pinned copy is the reference",
                    f
                ));
            }
        }
        let pinned16 = data.join("ucd-16.0.0/UnicodeData.txt");
        let repo16 = repo_dir().join("precis-profiles/resources/ucd/UnicodeData.txt");
        let a = fs::read(&pinned16).map_err(|e| e.to_string())?;
        let b = fs::read(&repo16).unwrap_or_default();
        let ud16 = if a == b {
            UnicodeData::load(&pinned16)?
        } else {
            let build = fs::read_to_string(repo_dir().join("precis-profiles/build.rs")).unwrap_or_default();
            if build.contains("\"16.0.0\"") {
                notes.push("repo's precis-profiles UnicodeData.txt differs from the pinned 16.0.0 copy although build.rs still says 16.0.0; the pinned copy is the reference".into());
                UnicodeData::load(&pinned16)?
            } else {
                notes.push("precis-profiles moved to another Unicode version; its own UnicodeData.txt is the reference for the 16.0-relative properties".into());
                UnicodeData::load(&repo16)?
            }
        };
        let dpt = DpTable::build()?;
        let registry = Registry::load(&data.join("csv/precis-tables-6.3.0.csv"))?;
        let py_hascompat = load_cpython_hascompat(&data.join("hascompat-cpython-ucd14.txt"))?;
        Ok(Env {
            u63,
            ud16,
            dpt,
            registry,
            py_hascompat,
            notes,
        })
    }
}
