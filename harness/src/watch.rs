//! Watchdog for "every operation returns": each worker publishes the case it is
//! running; a monitor thread reports a case that has been running too long as
//! a C01 violation (the statement says "returns") and ends the process.

use std::sync::atomic::{AtomicU64, Ordering};
use std::sync::{Arc, Mutex, OnceLock};
use std::time::{Duration, Instant};

pub struct Slot {
    start_ms: AtomicU64,
    case: Mutex<(String, Vec<u32>)>,
}

static SLOTS: OnceLock<Mutex<Vec<Arc<Slot>>>> = OnceLock::new();
static EPOCH: OnceLock<Instant> = OnceLock::new();

thread_local! {
    static MY: Arc<Slot> = {
        let s = Arc::new(Slot { start_ms: AtomicU64::new(0), case: Mutex::new((String::new(), Vec::new())) });
        SLOTS.get_or_init(|| Mutex::new(Vec::new())).lock().unwrap().push(s.clone());
        s
    };
}

fn now_ms() -> u64 {
    EPOCH.get_or_init(Instant::now).elapsed().as_millis() as u64 + 1
}

/// mark the start of a case (what = a short static label, cps = the input)
pub fn enter(what: &str, cps: &[char]) {
    MY.with(|s| {
        if let Ok(mut c) = s.case.lock() {
            c.0.clear();
            c.0.push_str(what);
            c.1.clear();
            c.1.extend(cps.iter().map(|x| *x as u32));
        }
        s.start_ms.store(now_ms(), Ordering::Release);
    });
}

pub fn leave() {
    MY.with(|s| s.start_ms.store(0, Ordering::Release));
}

/// start the monitor; `on_stuck(label, cps, seconds)` must not return
pub fn start_monitor<F: Fn(&str, &[u32], u64) + Send + 'static>(limit: Duration, on_stuck: F) {
    let _ = now_ms();
    std::thread::spawn(move || loop {
        std::thread::sleep(Duration::from_millis(500));
        let now = now_ms();
        let slots: Vec<Arc<Slot>> = SLOTS.get_or_init(|| Mutex::new(Vec::new())).lock().unwrap().clone();
        for s in slots {
            let st = s.start_ms.load(Ordering::Acquire);
            if st != 0 && now.saturating_sub(st) > limit.as_millis() as u64 {
                let c = s.case.lock().map(|c| c.clone()).unwrap_or_default();
                on_stuck(&c.0, &c.1, (now - st) / 1000);
            }
        }
    });
}
