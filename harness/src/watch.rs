//! Watchdog for "every operation returns". Every call into the library goes through
//! `subject::guard`, which stamps the calling thread's slot with a coarse tick on entry and
//! clears it on return (two relaxed stores). A monitor thread advances the tick every 100 ms
//! and reports a call that has been inside the library for more than the limit as a violation
//! ("does not return") of the property being checked, then ends the process: a hang is a
//! verdict about the subject, not a machinery problem. Checks may add a description of the
//! case they are running (`enter` / `context`) so that the report names the input.

use std::sync::atomic::{AtomicU64, Ordering};
use std::sync::{Arc, Mutex, OnceLock};
use std::time::Duration;

pub struct Slot {
    call_tick: AtomicU64,
    /// extra ticks granted to the calls of this thread (inputs of gigabytes legitimately take long)
    allowance: AtomicU64,
    case: Mutex<(String, Vec<u32>)>,
}

static SLOTS: OnceLock<Mutex<Vec<Arc<Slot>>>> = OnceLock::new();
static TICK: AtomicU64 = AtomicU64::new(1);

thread_local! {
    static MY: Arc<Slot> = {
        let s = Arc::new(Slot { call_tick: AtomicU64::new(0), allowance: AtomicU64::new(0), case: Mutex::new((String::new(), Vec::new())) });
        SLOTS.get_or_init(|| Mutex::new(Vec::new())).lock().unwrap().push(s.clone());
        s
    };
}

/// entering the library (called by `subject::guard`)
#[inline]
pub fn call_enter() {
    MY.with(|s| s.call_tick.store(TICK.load(Ordering::Relaxed), Ordering::Relaxed));
}

/// the library call returned (or unwound)
#[inline]
pub fn call_leave() {
    MY.with(|s| s.call_tick.store(0, Ordering::Relaxed));
}

/// describe the case the calling thread is working on (label + input as code points)
pub fn enter(what: &str, cps: &[char]) {
    MY.with(|s| {
        if let Ok(mut c) = s.case.lock() {
            c.0.clear();
            c.0.push_str(what);
            c.1.clear();
            c.1.extend(cps.iter().map(|x| *x as u32));
        }
    });
}

/// describe the case with free text only
pub fn context(what: &str) {
    enter(what, &[]);
}

pub fn leave() {}

/// run `f` with `secs` more seconds before its library calls count as "does not return"
pub fn with_allowance<T, F: FnOnce() -> T>(secs: u64, f: F) -> T {
    MY.with(|s| s.allowance.store(secs * 10, Ordering::Relaxed));
    let r = f();
    MY.with(|s| s.allowance.store(0, Ordering::Relaxed));
    r
}

/// start the monitor; `on_stuck(label, cps, seconds)` is expected not to return
pub fn start_monitor<F: Fn(&str, &[u32], u64) + Send + 'static>(limit: Duration, on_stuck: F) {
    let limit_ticks = (limit.as_millis() / 100).max(1) as u64;
    std::thread::spawn(move || loop {
        std::thread::sleep(Duration::from_millis(100));
        let now = TICK.fetch_add(1, Ordering::Relaxed) + 1;
        if now % 5 != 0 {
            continue;
        }
        let slots: Vec<Arc<Slot>> = SLOTS.get_or_init(|| Mutex::new(Vec::new())).lock().unwrap().clone();
        for s in slots {
            let st = s.call_tick.load(Ordering::Relaxed);
            if st != 0 && now.saturating_sub(st) > limit_ticks + s.allowance.load(Ordering::Relaxed) {
                let c = s.case.lock().map(|c| c.clone()).unwrap_or_default();
                on_stuck(&c.0, &c.1, (now - st) / 10);
            }
        }
    });
}
