//! Independent reader of Unicode Character Database text files.
//!
//! Shares nothing with `ucd-parse` or `precis-tools`: plain line splitting.
//! Used as the reference side of every table comparison.

use std::collections::BTreeMap;
use std::fs;
use std::path::{Path, PathBuf};

pub const NCP: usize = 0x110000;

/// One logical entry of UnicodeData.txt (First/Last pairs folded).
#[derive(Clone, Debug)]
pub struct UdEntry {
    pub start: u32,
    pub end: u32,
    pub gc: String,
    pub ccc: u8,
    pub bidi: String,
    /// decomposition tag without the angle brackets ("" = canonical / none)
    pub dtag: String,
    pub dmap: Vec<u32>,
    pub lower: Option<u32>,
}

/// Per-code-point view of UnicodeData.txt.
pub struct UnicodeData {
    pub entries: Vec<UdEntry>,
    /// index into `entries` + 1, 0 = not listed (Cn)
    idx: Vec<u32>,
}

fn hex(s: &str) -> Result<u32, String> {
    u32::from_str_radix(s.trim(), 16).map_err(|e| format!("bad hex '{}': {}", s, e))
}

impl UnicodeData {
    pub fn parse_str(text: &str) -> Result<UnicodeData, String> {
        let mut entries: Vec<UdEntry> = Vec::new();
        let mut pending_first: Option<u32> = None;
        for (ln, line) in text.lines().enumerate() {
            if line.trim().is_empty() {
                continue;
            }
            let f: Vec<&str> = line.split(';').collect();
            if f.len() < 15 {
                return Err(format!("UnicodeData line {}: {} fields", ln + 1, f.len()));
            }
            let cp = hex(f[0])?;
            let name = f[1];
            let (dtag, dmap) = {
                let d = f[5].trim();
                if d.is_empty() {
                    (String::new(), Vec::new())
                } else {
                    let mut tag = String::new();
                    let mut map = Vec::new();
                    for tok in d.split_whitespace() {
                        if tok.starts_with('<') {
                            tag = tok.trim_start_matches('<').trim_end_matches('>').to_string();
                        } else {
                            map.push(hex(tok)?);
                        }
                    }
                    (tag, map)
                }
            };
            let lower = if f[13].trim().is_empty() {
                None
            } else {
                Some(hex(f[13])?)
            };
            let e = UdEntry {
                start: cp,
                end: cp,
                gc: f[2].to_string(),
                ccc: f[3].trim().parse::<u8>().map_err(|e| format!("ccc: {}", e))?,
                bidi: f[4].to_string(),
                dtag,
                dmap,
                lower,
            };
            if name.starts_with('<') && name.ends_with(", First>") {
                if pending_first.is_some() {
                    return Err(format!("line {}: nested First", ln + 1));
                }
                pending_first = Some(cp);
                continue;
            }
            if name.starts_with('<') && name.ends_with(", Last>") {
                let s = pending_first
                    .take()
                    .ok_or_else(|| format!("line {}: Last without First", ln + 1))?;
                let mut e = e;
                e.start = s;
                entries.push(e);
                continue;
            }
            if pending_first.is_some() {
                return Err(format!("line {}: First not followed by Last", ln + 1));
            }
            entries.push(e);
        }
        if pending_first.is_some() {
            return Err("dangling First".into());
        }
        let mut idx = vec![0u32; NCP];
        for (i, e) in entries.iter().enumerate() {
            if e.end as usize >= NCP || e.start > e.end {
                return Err(format!("entry out of range {:X}..{:X}", e.start, e.end));
            }
            for cp in e.start..=e.end {
                idx[cp as usize] = (i + 1) as u32;
            }
        }
        Ok(UnicodeData { entries, idx })
    }

    pub fn load(path: &Path) -> Result<UnicodeData, String> {
        let text = fs::read_to_string(path).map_err(|e| format!("{}: {}", path.display(), e))?;
        Self::parse_str(&text)
    }

    #[inline]
    pub fn get(&self, cp: u32) -> Option<&UdEntry> {
        if (cp as usize) < NCP {
            let i = self.idx[cp as usize];
            if i == 0 {
                None
            } else {
                Some(&self.entries[(i - 1) as usize])
            }
        } else {
            None
        }
    }

    pub fn assigned(&self, cp: u32) -> bool {
        self.get(cp).is_some()
    }

    pub fn gc(&self, cp: u32) -> &str {
        self.get(cp).map(|e| e.gc.as_str()).unwrap_or("Cn")
    }

    pub fn bidi(&self, cp: u32) -> Option<&str> {
        self.get(cp).map(|e| e.bidi.as_str())
    }

    pub fn ccc(&self, cp: u32) -> u8 {
        self.get(cp).map(|e| e.ccc).unwrap_or(0)
    }

    /// `<wide>` / `<narrow>` decomposition target, if any.
    pub fn width_map(&self, cp: u32) -> Option<u32> {
        self.get(cp).and_then(|e| {
            if (e.dtag == "wide" || e.dtag == "narrow") && !e.dmap.is_empty() {
                Some(e.dmap[0])
            } else {
                None
            }
        })
    }
}

/// `cp(..cp) ; value # comment` style property files.
pub struct PropFile {
    pub rows: Vec<(u32, u32, String)>,
}

impl PropFile {
    pub fn parse_str(text: &str) -> Result<PropFile, String> {
        let mut rows = Vec::new();
        for line in text.lines() {
            let body = match line.find('#') {
                Some(i) => &line[..i],
                None => line,
            };
            let body = body.trim();
            if body.is_empty() {
                continue;
            }
            let mut parts = body.split(';');
            let cps = parts.next().ok_or("no cps")?.trim();
            let val = parts.next().ok_or("no value")?.trim().to_string();
            let (s, e) = match cps.find("..") {
                Some(i) => (hex(&cps[..i])?, hex(&cps[i + 2..])?),
                None => {
                    let v = hex(cps)?;
                    (v, v)
                }
            };
            rows.push((s, e, val));
        }
        Ok(PropFile { rows })
    }

    pub fn load(path: &Path) -> Result<PropFile, String> {
        let text = fs::read_to_string(path).map_err(|e| format!("{}: {}", path.display(), e))?;
        Self::parse_str(&text)
    }

    pub fn set(&self, value: &str) -> Vec<bool> {
        let mut v = vec![false; NCP];
        for (s, e, val) in &self.rows {
            if val == value {
                for cp in *s..=*e {
                    if (cp as usize) < NCP {
                        v[cp as usize] = true;
                    }
                }
            }
        }
        v
    }

    pub fn values(&self) -> BTreeMap<String, usize> {
        let mut m = BTreeMap::new();
        for (s, e, val) in &self.rows {
            *m.entry(val.clone()).or_insert(0) += (e - s + 1) as usize;
        }
        m
    }
}

/// Everything the Unicode 6.3.0 side of the reference needs.
pub struct Ucd63 {
    pub ud: UnicodeData,
    pub join_control: Vec<bool>,
    pub nonchar: Vec<bool>,
    pub default_ignorable: Vec<bool>,
    pub hangul_l: Vec<bool>,
    pub hangul_v: Vec<bool>,
    pub hangul_t: Vec<bool>,
    pub greek: Vec<bool>,
    pub hebrew: Vec<bool>,
    pub hiragana: Vec<bool>,
    pub katakana: Vec<bool>,
    pub han: Vec<bool>,
    pub jt_d: Vec<bool>,
    pub jt_l: Vec<bool>,
    pub jt_r: Vec<bool>,
    pub jt_t: Vec<bool>,
}

impl Ucd63 {
    pub fn load(dir: &Path) -> Result<Ucd63, String> {
        let ud = UnicodeData::load(&dir.join("UnicodeData.txt"))?;
        let pl = PropFile::load(&dir.join("PropList.txt"))?;
        let dcp = PropFile::load(&dir.join("DerivedCoreProperties.txt"))?;
        let hst = PropFile::load(&dir.join("HangulSyllableType.txt"))?;
        let sc = PropFile::load(&dir.join("Scripts.txt"))?;
        let jt = PropFile::load(&dir.join("extracted/DerivedJoiningType.txt"))?;
        Ok(Ucd63 {
            ud,
            join_control: pl.set("Join_Control"),
            nonchar: pl.set("Noncharacter_Code_Point"),
            default_ignorable: dcp.set("Default_Ignorable_Code_Point"),
            hangul_l: hst.set("L"),
            hangul_v: hst.set("V"),
            hangul_t: hst.set("T"),
            greek: sc.set("Greek"),
            hebrew: sc.set("Hebrew"),
            hiragana: sc.set("Hiragana"),
            katakana: sc.set("Katakana"),
            han: sc.set("Han"),
            jt_d: jt.set("D"),
            jt_l: jt.set("L"),
            jt_r: jt.set("R"),
            jt_t: jt.set("T"),
        })
    }

    pub fn virama(&self, cp: u32) -> bool {
        self.ud.ccc(cp) == 9
    }
}

#[inline]
pub fn inset(v: &[bool], cp: u32) -> bool {
    (cp as usize) < v.len() && v[cp as usize]
}

pub fn verif_dir() -> PathBuf {
    std::env::var_os("VERIF_DIR")
        .map(PathBuf::from)
        .unwrap_or_else(|| PathBuf::from("/verif"))
}

pub fn repo_dir() -> PathBuf {
    std::env::var_os("PRECIS_REPO")
        .map(PathBuf::from)
        .unwrap_or_else(|| PathBuf::from("/repo"))
}
