//! Driver of the race-detector pass (harness-race built with ThreadSanitizer).
//!
//! The schedule explorer enumerates interleavings over the synchronisation operations it
//! intercepts; shared state reached without any such operation (`static mut`, `UnsafeCell`
//! behind `unsafe impl Sync`, ...) has no scheduling point there. This pass closes that gap the
//! way a controlled scheduler is meant to be complemented: the same kind of harness bodies run on
//! real free-running threads under a happens-before race detector. What is enumerated is
//! exhaustive within its bounds - every call of the suite's alphabet as the first use of the
//! library by three threads of a fresh process, and every unordered pair of calls on two threads
//! of a warm process - and the detector reports every pair of conflicting accesses of one
//! scenario that no happens-before edge orders, whether or not values tore in that run.

use crate::engine::*;
use rayon::prelude::*;
use serde_json::{json, Value};
use std::collections::{BTreeMap, BTreeSet};
use std::path::PathBuf;
use std::process::Command;

#[derive(Default, Debug)]
struct ChildReport {
    done: bool,
    mismatches: Vec<String>,
    race_in: Vec<(String, usize, usize)>,
    /// normalised SUMMARY line -> excerpt of the report
    sites: BTreeMap<String, String>,
    foreign: BTreeSet<String>,
    fatal: Option<String>,
}

fn race_bin() -> Option<PathBuf> {
    if std::env::var("PMC_RACE_MODE").map(|m| m != "tsan").unwrap_or(true) {
        return None;
    }
    let p = PathBuf::from(std::env::var("PMC_RACE_BIN").ok()?);
    if p.exists() {
        Some(p)
    } else {
        None
    }
}

fn scratch_dir() -> PathBuf {
    let base = std::env::var("PMC_BUILD_DIR").map(PathBuf::from).unwrap_or_else(|_| out_dir().join(".build"));
    base.join("race-scratch")
}

fn normalise_site(line: &str) -> String {
    // "SUMMARY: ThreadSanitizer: data race /abs/path/precis-core/src/common.rs:115:9 in precis_core::common::has_compat"
    let l = line.trim().trim_start_matches("SUMMARY: ThreadSanitizer: ").to_string();
    for marker in ["precis-core/", "precis-profiles/", "precis-tools/"] {
        if let Some(i) = l.find(marker) {
            let head_end = l[..i].rfind(' ').map(|x| x + 1).unwrap_or(0);
            return format!("{}{}", &l[..head_end], &l[i..]);
        }
    }
    l
}

fn is_subject(block: &str) -> bool {
    ["precis_core::", "precis_profiles::", "precis_tools::"].iter().any(|m| block.contains(m))
}

fn excerpt(block: &str) -> String {
    // the two access headers and the first subject frames of each
    let mut out = Vec::new();
    for l in block.lines() {
        let t = l.trim();
        if t.starts_with("WARNING:") || t.starts_with("Read of") || t.starts_with("Write of") || t.starts_with("Previous ") || t.starts_with("Atomic ") || t.starts_with("Location is") {
            out.push(t.split(" (pid=").next().unwrap_or(t).to_string());
        } else if t.starts_with('#') && is_subject(t) && out.len() < 14 {
            let f = t.split(" (pmc-race+").next().unwrap_or(t);
            out.push(format!("  {}", f));
        }
    }
    out.join(" | ")
}

fn parse(stdout: &str, stderr: &str) -> ChildReport {
    let mut r = ChildReport::default();
    for l in stdout.lines() {
        if l.starts_with("DONE") {
            r.done = true;
        } else if l.starts_with("MISMATCH") {
            if r.mismatches.len() < 50 {
                r.mismatches.push(l.to_string());
            }
        } else if let Some(rest) = l.strip_prefix("RACE-IN ") {
            let p: Vec<&str> = rest.split(' ').collect();
            if p.len() == 3 {
                if let (Ok(i), Ok(j)) = (p[1].parse(), p[2].parse()) {
                    r.race_in.push((p[0].to_string(), i, j));
                }
            }
        }
    }
    for block in stderr.split("==================") {
        if !block.contains("WARNING: ThreadSanitizer") {
            if let Some(l) = block.lines().find(|l| l.contains("FATAL: ThreadSanitizer") || l.contains("ThreadSanitizer: failed") || l.contains("ThreadSanitizer: unexpected memory mapping")) {
                r.fatal = Some(l.trim().to_string());
            }
            continue;
        }
        let summary = block.lines().find(|l| l.trim_start().starts_with("SUMMARY:")).map(normalise_site).unwrap_or_else(|| "ThreadSanitizer report without summary".into());
        if is_subject(block) {
            r.sites.entry(summary).or_insert_with(|| excerpt(block));
        } else {
            r.foreign.insert(summary);
        }
    }
    r
}

fn run_child(bin: &PathBuf, args: &[String]) -> ChildReport {
    let o = Command::new(bin)
        .args(args)
        .env("TSAN_OPTIONS", "exitcode=0 halt_on_error=0 report_thread_leaks=0")
        .env("PMC_RACE_SCRATCH", scratch_dir())
        .output();
    match o {
        Ok(o) => {
            let mut r = parse(&String::from_utf8_lossy(&o.stdout), &String::from_utf8_lossy(&o.stderr));
            if !r.done && r.fatal.is_none() && !o.status.success() && r.sites.is_empty() {
                // killed / aborted without any report
                r.fatal = r.fatal.or(Some(format!("child exited with {:?} without a report", o.status)));
            }
            r
        }
        Err(e) => ChildReport { fatal: Some(format!("cannot run {}: {}", bin.display(), e)), ..Default::default() },
    }
}

fn call_name(bin: &PathBuf, suite: &str, i: usize) -> String {
    Command::new(bin).args(["name", suite, &i.to_string()]).output().map(|o| String::from_utf8_lossy(&o.stdout).trim().to_string()).unwrap_or_default()
}

fn mk_case(suite: &str, mode: &str, i: usize, j: usize, names: (String, String)) -> Case {
    Case::new("race").n(i as u64).n(j as u64).x(json!({"suite": suite, "mode": mode, "calls": [names.0, names.1]}))
}

/// keep the violation text in the case, so that a replay that finds the same kind of defect again
/// reports it in the same words (what `finish` compares)
fn with_text(mut c: Case, expected: &str, actual: &str) -> Case {
    if let Some(o) = c.extra.as_object_mut() {
        o.insert("expected".into(), json!(expected));
        o.insert("actual".into(), json!(actual));
    }
    c
}

const NO_RACE: &str = "no two accesses to shared memory from concurrent library calls conflict without a happens-before edge (a data race makes the result depend on the schedule, not on the arguments)";

/// Run the pass for one suite ("lib" = precis-core + precis-profiles API, "tools" = generators and
/// registry parser); violations go to `st`, the return value to the evidence file.
pub fn race_pass(suite: &str, _run: &Run, st: &mut Stats) -> Value {
    let bin = match race_bin() {
        Some(b) => b,
        None => {
            st.note("race-detector pass skipped: no ThreadSanitizer build of harness-race in this environment (see ./check)".into());
            return json!({"status": "skipped: ThreadSanitizer build unavailable"});
        }
    };
    let _ = std::fs::create_dir_all(scratch_dir());
    let n: usize = match Command::new(&bin).args(["count", suite]).output() {
        Ok(o) => String::from_utf8_lossy(&o.stdout).trim().parse().unwrap_or(0),
        Err(_) => 0,
    };
    if n == 0 {
        st.caps_hit.push("MACHINERY: race pass: cannot read the call alphabet of pmc-race".into());
        return json!({"status": "machinery error"});
    }
    let shards: usize = if n > 200 { 16 } else { 2 };
    enum Job {
        First(usize),
        Shard(usize),
    }
    let mut jobs: Vec<Job> = (0..shards).map(Job::Shard).collect();
    jobs.extend((0..n).map(Job::First));
    let reports: Vec<(String, usize, ChildReport)> = jobs
        .par_iter()
        .map(|j| match j {
            Job::First(i) => ("first".to_string(), *i, run_child(&bin, &["first".into(), suite.into(), i.to_string()])),
            Job::Shard(k) => ("pairs".to_string(), *k, run_child(&bin, &["pairs".into(), suite.into(), k.to_string(), shards.to_string()])),
        })
        .collect();
    let pairs_total = n * (n + 1) / 2;
    st.states += (n + pairs_total) as u64;
    st.transitions += (3 * 2 * n + 2 * pairs_total) as u64;
    st.evaluations += (3 * 2 * n + 2 * pairs_total) as u64;
    st.add("race_pass:first_use_scenarios", n as u64);
    st.add("race_pass:pair_scenarios", pairs_total as u64);
    let mut sites: BTreeMap<String, (String, Case)> = BTreeMap::new();
    let mut mismatch_n = 0u64;
    let mut foreign: BTreeSet<String> = BTreeSet::new();
    let mut machinery: Vec<String> = Vec::new();
    for (mode, k, r) in &reports {
        if let Some(f) = &r.fatal {
            machinery.push(format!("{} {}: {}", mode, k, f));
            continue;
        }
        foreign.extend(r.foreign.iter().cloned());
        // a concrete scenario to attach to the sites of this child
        let scen: (String, usize, usize) = r.race_in.first().cloned().unwrap_or_else(|| if mode == "first" { ("first".into(), *k, *k) } else { ("shard".into(), *k, shards) });
        for (site, ex) in &r.sites {
            if !sites.contains_key(site) {
                let names = if scen.0 == "shard" { (String::new(), String::new()) } else { (call_name(&bin, suite, scen.1), call_name(&bin, suite, scen.2)) };
                sites.insert(site.clone(), (ex.clone(), mk_case(suite, &scen.0, scen.1, scen.2, names)));
            }
        }
        for m in &r.mismatches {
            mismatch_n += 1;
            if mismatch_n <= 8 {
                // "MISMATCH pair i j thread=t ..." / "MISMATCH first i i thread=t ..."
                let p: Vec<&str> = m.splitn(5, ' ').collect();
                let (md, i, j) = (p.get(1).copied().unwrap_or("pair"), p.get(2).and_then(|x| x.parse().ok()).unwrap_or(0usize), p.get(3).and_then(|x| x.parse().ok()).unwrap_or(0usize));
                let names = (call_name(&bin, suite, i), call_name(&bin, suite, j));
                let detail = p.get(4).copied().unwrap_or("").to_string();
                let (got, exp) = match detail.split_once(" expected=") {
                    Some((g, e)) => (g.to_string(), e.to_string()),
                    None => (detail.clone(), String::new()),
                };
                let e = format!("{} (single-threaded answer)", exp.chars().take(300).collect::<String>());
                let g: String = got.chars().take(300).collect();
                st.violation("race_mismatch", || with_text(mk_case(suite, md, i, j, names), &e, &g), e.clone(), g.clone());
            }
        }
        if !r.done && r.fatal.is_none() {
            let (i, j) = (scen.1, scen.2);
            let names = (call_name(&bin, suite, i), call_name(&bin, suite, j));
            let g = format!("child of {} {} died; reports: {:?}", mode, k, r.sites.keys().take(3).collect::<Vec<_>>());
            st.violation("race_crash", || with_text(mk_case(suite, &scen.0, i, j, names), "the scenario runs to completion", &g), "the scenario runs to completion".into(), g.clone());
        }
    }
    for (site, (ex, case)) in &sites {
        let g = format!("{} :: {}", site, ex);
        st.violation("data_race", || with_text(case.clone(), NO_RACE, &g), NO_RACE.into(), g.clone());
    }
    if !machinery.is_empty() {
        // the detector itself could not run some scenarios: say so, never turn it into a verdict
        st.note(format!("race-detector pass: {} children could not run ({}); their scenarios are NOT covered", machinery.len(), machinery[0]));
        if machinery.len() == reports.len() {
            return json!({"status": format!("skipped: ThreadSanitizer cannot run here ({})", machinery[0])});
        }
    }
    if !foreign.is_empty() {
        st.note(format!("race-detector pass: {} reports without a frame in the subject crates (harness or dependencies), not counted: {:?}", foreign.len(), foreign.iter().take(3).collect::<Vec<_>>()));
    }
    json!({
        "status": "ran",
        "detector": "ThreadSanitizer (happens-before), std rebuilt with the sanitizer, subject not instrumented otherwise",
        "suite": suite,
        "calls": n,
        "first_use_scenarios": {"count": n, "shape": "fresh process, 3 threads, the same call twice each, released from a barrier"},
        "pair_scenarios": {"count": pairs_total, "shape": "all unordered pairs {i,j}: thread A makes call i while thread B makes call j, barrier between scenarios", "shards": shards},
        "children_failed_to_run": machinery.len(),
        "data_race_sites": sites.keys().collect::<Vec<_>>(),
        "result_mismatches": mismatch_n,
        "reports_outside_subject": foreign.len(),
    })
}

pub fn replay(case: &Case) -> Vec<Violation> {
    let mut st = Stats::default();
    let bin = match race_bin() {
        Some(b) => b,
        None => return vec![],
    };
    let suite = case.extra["suite"].as_str().unwrap_or("lib").to_string();
    let mode = case.extra["mode"].as_str().unwrap_or("pair").to_string();
    let (i, j) = (case.nums.first().copied().unwrap_or(0) as usize, case.nums.get(1).copied().unwrap_or(0) as usize);
    let args: Vec<String> = match mode.as_str() {
        "first" => vec!["first".into(), suite.clone(), i.to_string()],
        "shard" => vec!["pairs".into(), suite.clone(), i.to_string(), j.to_string()],
        _ => vec!["one".into(), suite.clone(), i.to_string(), j.to_string()],
    };
    // a race report does not need the values to tear, but it does need both accesses to happen:
    // three attempts
    let text = |k: &str, d: &str| case.extra[k].as_str().unwrap_or(d).to_string();
    for _ in 0..3 {
        let r = run_child(&bin, &args);
        // the same defect seen again is reported in the words of the original finding
        if !r.sites.is_empty() {
            st.violation("data_race", || case.clone(), text("expected", NO_RACE), text("actual", r.sites.keys().next().map(|s| s.as_str()).unwrap_or("")));
        }
        if !r.mismatches.is_empty() {
            st.violation("race_mismatch", || case.clone(), text("expected", "the single-threaded answer"), text("actual", &r.mismatches[0]));
        }
        if !r.done && r.fatal.is_none() {
            st.violation("race_crash", || case.clone(), text("expected", "the scenario runs to completion"), text("actual", "child died"));
        }
        if !st.violations.is_empty() {
            break;
        }
    }
    st.violations
}
