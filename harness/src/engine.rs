//! Exploration engines (string tree, code-point sweep, u32 sweep), statistics,
//! evidence / replay writers and the known-findings matcher.

use rayon::prelude::*;
use serde_json::{json, Value};
use std::collections::BTreeMap;
use std::fs;
use std::path::PathBuf;
use std::time::Instant;

use crate::ucd::verif_dir;

#[derive(Copy, Clone, PartialEq, Eq, Debug)]
pub enum Tier {
    Quick,
    Thorough,
}

impl Tier {
    pub fn name(self) -> &'static str {
        match self {
            Tier::Quick => "quick",
            Tier::Thorough => "thorough",
        }
    }
    pub fn pick<T>(self, q: T, t: T) -> T {
        match self {
            Tier::Quick => q,
            Tier::Thorough => t,
        }
    }
}

/// "Lite" pass: the same check in the plain release profile (no overflow checks, no debug
/// assertions - what users ship), over a reduced space: string trees one symbol shorter, code
/// point sweeps restricted to U+0000..U+30FF, U+F900..U+10FFF and every 61st code point.
/// Its only job is to expose behaviour that differs between build profiles.
pub static LITE: std::sync::atomic::AtomicBool = std::sync::atomic::AtomicBool::new(false);

pub fn lite() -> bool {
    LITE.load(std::sync::atomic::Ordering::Relaxed)
}

/// "Deep" pass (C01 only): the binary built without optimisation, long runs on small stacks
pub static DEEP: std::sync::atomic::AtomicBool = std::sync::atomic::AtomicBool::new(false);

pub fn deep() -> bool {
    DEEP.load(std::sync::atomic::Ordering::Relaxed)
}

/// where evidence/ and replays/ are written: /verif, or VERIF_OUT_DIR for
/// trial runs against seeded defects (so committed evidence is never clobbered)
pub fn out_dir() -> PathBuf {
    std::env::var_os("VERIF_OUT_DIR").map(PathBuf::from).unwrap_or_else(verif_dir)
}

/// A replayable case: operation name + string arguments as code-point lists
/// + integer arguments.
#[derive(Clone, Debug, PartialEq)]
pub struct Case {
    pub op: String,
    pub strs: Vec<Vec<u32>>,
    pub nums: Vec<u64>,
    pub extra: Value,
    /// address of the first string modulo 16 when the case came from a *placed* family
    /// (`run_family_placed`); `None` = wherever the allocator put it (16-aligned in practice)
    pub align: Option<u8>,
}

thread_local! {
    static PLACE: std::cell::Cell<Option<u8>> = const { std::cell::Cell::new(None) };
}

/// A string held at a chosen address residue modulo 16: what a sub-slice of a larger buffer,
/// a field of a protocol frame or an oddly placed literal looks like to the library. The bytes
/// around it are 0xEF (never ASCII, never a complete character), so an over-read is visible.
pub struct Placed {
    buf: Vec<u8>,
    off: usize,
    len: usize,
}

impl Placed {
    pub fn new(s: &str, k: u8) -> Placed {
        let mut buf = vec![0xEFu8; s.len() + 48];
        let base = buf.as_ptr() as usize;
        let off = 16 + ((k as usize % 16) + 16 - (base % 16)) % 16;
        buf[off..off + s.len()].copy_from_slice(s.as_bytes());
        let p = Placed { buf, off, len: s.len() };
        debug_assert_eq!(p.as_str().as_ptr() as usize % 16, k as usize % 16);
        p
    }
    pub fn as_str(&self) -> &str {
        std::str::from_utf8(&self.buf[self.off..self.off + self.len]).expect("placed string")
    }
}

impl PartialEq for Placed {
    fn eq(&self, o: &Placed) -> bool {
        self.as_str() == o.as_str()
    }
}

impl std::ops::Deref for Placed {
    type Target = str;
    fn deref(&self) -> &str {
        self.as_str()
    }
}

impl Case {
    pub fn new(op: &str) -> Case {
        Case {
            op: op.to_string(),
            strs: vec![],
            nums: vec![],
            extra: Value::Null,
            align: PLACE.with(|p| p.get()),
        }
    }
    pub fn s(mut self, s: &str) -> Case {
        self.strs.push(s.chars().map(|c| c as u32).collect());
        self
    }
    pub fn cps(mut self, v: &[u32]) -> Case {
        self.strs.push(v.to_vec());
        self
    }
    pub fn n(mut self, n: u64) -> Case {
        self.nums.push(n);
        self
    }
    pub fn x(mut self, v: Value) -> Case {
        self.extra = v;
        self
    }
    pub fn to_json(&self) -> Value {
        match self.align {
            Some(k) => json!({"op": self.op, "strs": self.strs, "nums": self.nums, "extra": self.extra, "align": k}),
            None => json!({"op": self.op, "strs": self.strs, "nums": self.nums, "extra": self.extra}),
        }
    }
    pub fn from_json(v: &Value) -> Option<Case> {
        Some(Case {
            op: v.get("op")?.as_str()?.to_string(),
            strs: v
                .get("strs")?
                .as_array()?
                .iter()
                .map(|a| {
                    a.as_array()
                        .map(|x| x.iter().filter_map(|n| n.as_u64().map(|n| n as u32)).collect())
                        .unwrap_or_default()
                })
                .collect(),
            nums: v
                .get("nums")?
                .as_array()?
                .iter()
                .filter_map(|n| n.as_u64())
                .collect(),
            extra: v.get("extra").cloned().unwrap_or(Value::Null),
            align: v.get("align").and_then(|a| a.as_u64()).map(|a| a as u8),
        })
    }
    /// the i-th string of the case, at the address residue the case was found at
    pub fn str_at(&self, i: usize) -> Placed {
        let s: String = self
            .strs
            .get(i)
            .map(|v| v.iter().filter_map(|c| char::from_u32(*c)).collect())
            .unwrap_or_default();
        Placed::new(&s, self.align.unwrap_or(0))
    }
    pub fn size(&self) -> usize {
        self.strs.iter().map(|s| s.len()).sum::<usize>()
    }
}

#[derive(Clone, Debug)]
pub struct Violation {
    /// "" = unclassified; otherwise the name of a narrow predicate that a
    /// KNOWN_FINDINGS entry may list
    pub kind: String,
    pub case: Case,
    pub expected: String,
    pub actual: String,
}

const SAMPLE_CAP: usize = 24;

#[derive(Default, Clone, Debug)]
pub struct Stats {
    pub states: u64,
    pub transitions: u64,
    pub evaluations: u64,
    pub traces: u64,
    pub nontrivial: u64,
    pub counters: BTreeMap<String, u64>,
    pub violations: Vec<Violation>,
    pub violation_count: u64,
    pub samples: Vec<Value>,
    pub notes: Vec<String>,
    pub caps_hit: Vec<String>,
}

impl Stats {
    pub fn merge(&mut self, o: Stats) {
        self.states += o.states;
        self.transitions += o.transitions;
        self.evaluations += o.evaluations;
        self.traces += o.traces;
        self.nontrivial += o.nontrivial;
        for (k, v) in o.counters {
            *self.counters.entry(k).or_insert(0) += v;
        }
        self.violation_count += o.violation_count;
        // keep examples per kind, so that a frequent (possibly known) kind can never crowd out
        // the examples of a rare one
        for v in o.violations {
            let same_kind = self.violations.iter().filter(|w| w.kind == v.kind).count();
            if same_kind < 40 {
                self.violations.push(v);
            }
        }
        for s in o.samples {
            if self.samples.len() < SAMPLE_CAP {
                self.samples.push(s);
            }
        }
        for n in o.notes {
            if !self.notes.contains(&n) {
                self.notes.push(n);
            }
        }
        for n in o.caps_hit {
            if !self.caps_hit.contains(&n) {
                self.caps_hit.push(n);
            }
        }
    }
    #[inline]
    pub fn count(&mut self, key: &str) {
        match self.counters.get_mut(key) {
            Some(v) => *v += 1,
            None => {
                self.counters.insert(key.to_string(), 1);
            }
        }
    }
    pub fn add(&mut self, key: &str, n: u64) {
        *self.counters.entry(key.to_string()).or_insert(0) += n;
    }
    pub fn violation<F: FnOnce() -> Case>(&mut self, kind: &str, case: F, expected: String, actual: String) {
        self.violation_count += 1;
        self.count(&format!("viol:{}", kind));
        // keep the first few of each kind per shard; everything is counted
        let same_kind = self.violations.iter().filter(|v| v.kind == kind).count();
        if same_kind < 8 {
            self.violations.push(Violation {
                kind: kind.to_string(),
                case: case(),
                expected,
                actual,
            });
        }
    }
    pub fn sample(&mut self, v: Value) {
        if self.samples.len() < SAMPLE_CAP {
            self.samples.push(v);
        }
    }
    pub fn note(&mut self, s: String) {
        if !self.notes.contains(&s) {
            self.notes.push(s);
        }
    }
}

// ---------------------------------------------------------------------------
// String tree
// ---------------------------------------------------------------------------

/// Number of strings of length 0..=n over k symbols.
pub fn tree_size(k: usize, n: usize) -> u64 {
    let mut total = 0u64;
    let mut p = 1u64;
    for _ in 0..=n {
        total += p;
        p = p.saturating_mul(k as u64);
    }
    total
}

fn dfs<F>(alpha: &[char], max_len: usize, chars: &mut Vec<char>, buf: &mut String, f: &F, st: &mut Stats)
where
    F: Fn(&[char], &str, &mut Stats) + Sync,
{
    st.states += 1;
    f(chars, buf, st);
    if chars.len() >= max_len {
        return;
    }
    for &c in alpha {
        chars.push(c);
        let l = buf.len();
        buf.push(c);
        st.transitions += 1;
        dfs(alpha, max_len, chars, buf, f, st);
        buf.truncate(l);
        chars.pop();
    }
}

/// Visit every string of length 0..=max_len over `alpha` exactly once.
/// Shards = fixed partition on the first two symbols; merged in shard order.
pub fn strtree<F>(alpha: &[char], max_len: usize, f: F) -> Stats
where
    F: Fn(&[char], &str, &mut Stats) + Sync,
{
    let max_len = if lite() { max_len.saturating_sub(1).max(2) } else { max_len };
    let mut total = Stats::default();
    // root
    total.states += 1;
    f(&[], "", &mut total);
    if max_len == 0 {
        return total;
    }
    if max_len == 1 {
        for &c in alpha {
            total.transitions += 1;
            total.states += 1;
            let s = c.to_string();
            f(&[c], &s, &mut total);
        }
        return total;
    }
    // length-1 nodes, then shards rooted at length-2 prefixes
    for &c in alpha {
        total.transitions += 1;
        total.states += 1;
        let s = c.to_string();
        f(&[c], &s, &mut total);
    }
    let prefixes: Vec<(char, char)> = alpha
        .iter()
        .flat_map(|a| alpha.iter().map(move |b| (*a, *b)))
        .collect();
    let shards: Vec<Stats> = prefixes
        .par_iter()
        .map(|(a, b)| {
            let mut st = Stats::default();
            let mut chars = vec![*a, *b];
            let mut buf = String::new();
            buf.push(*a);
            buf.push(*b);
            st.transitions += 1;
            dfs(alpha, max_len, &mut chars, &mut buf, &f, &mut st);
            st
        })
        .collect();
    for s in shards {
        total.merge(s);
    }
    // actual members of the explored space, written out: the first and the last leaf of the tree
    let show = |v: Vec<char>| v.iter().map(|c| format!("U+{:04X}", *c as u32)).collect::<Vec<_>>();
    if let (Some(a), Some(z)) = (alpha.first(), alpha.last()) {
        total.sample(json!({"explored_string": show(vec![*a; max_len]), "position_in_tree": "first leaf"}));
        total.sample(json!({"explored_string": show(vec![*z; max_len]), "position_in_tree": "last leaf"}));
        let mid: Vec<char> = (0..max_len).map(|i| alpha[(i * 7 + 3) % alpha.len()]).collect();
        total.sample(json!({"explored_string": show(mid), "position_in_tree": "interior leaf"}));
    }
    total
}

/// The code points that share the low 16 bits of `c` in every other plane (16 of them): what
/// a lookup that truncates or folds the code point (u16 keys or tags, `cp & mask` cache
/// slots, plane-blind tables) confuses `c` with, whatever it does with the remaining bits.
pub fn alias_chars(c: char) -> Vec<char> {
    let x = c as u32;
    (0..=16u32).filter(|p| *p != x >> 16).filter_map(|p| char::from_u32((x & 0xFFFF) | (p << 16))).collect()
}

/// `x` and `y` (a code point and one of its aliases, two neighbours ...) far apart and close
/// together inside a LONG label: x F^120 y, F^120 x y, x F^30 y F^90 and the same with the two
/// exchanged (F = `a`). Fast paths, per-call memo tables and bulk lookups that are only switched
/// on for labels above some size never see the two-character labels of the sweeps.
pub fn long_pair_strings(x: char, y: char) -> Vec<String> {
    let mut out = Vec::with_capacity(6);
    for (p, q) in [(x, y), (y, x)] {
        let mut s = String::with_capacity(136);
        s.push(p);
        s.extend(std::iter::repeat('a').take(120));
        s.push(q);
        out.push(s);
        let mut s = String::with_capacity(136);
        s.extend(std::iter::repeat('a').take(120));
        s.push(p);
        s.push(q);
        out.push(s);
        let mut s = String::with_capacity(136);
        s.push(p);
        s.extend(std::iter::repeat('a').take(30));
        s.push(q);
        s.extend(std::iter::repeat('a').take(90));
        out.push(s);
    }
    out
}

/// Run `f` on every scalar value in ascending and then in descending order ON ONE THREAD:
/// the history a per-thread cache, counter or lazily grown table sees when one caller works
/// through the whole code space (slot-number wrap, eviction, rehash after many distinct keys).
pub fn cpsweep_sequential<F>(f: F) -> Stats
where
    F: Fn(char, &mut Stats),
{
    let mut st = Stats::default();
    for cp in (0..0x110000u32).chain((0..0x110000u32).rev()) {
        if lite() && !(cp < 0x3100 || (0xF900..0x11000).contains(&cp) || cp % 61 == 0) {
            continue;
        }
        if let Some(c) = char::from_u32(cp) {
            st.states += 1;
            st.transitions += 1;
            f(c, &mut st);
        }
    }
    st
}

/// "Pumped" strings over an alphabet: a^k b, b a^k and a^k b a for run lengths k around every
/// boundary a fixed-size buffer, a block-wise fast path or a narrow length type could have.
pub fn pumped(sigma: &[char], ks: &[usize]) -> Vec<String> {
    let mut out = Vec::new();
    for &a in sigma {
        for &b in sigma {
            for &k in ks {
                let run: String = std::iter::repeat(a).take(k).collect();
                let mut s1 = run.clone();
                s1.push(b);
                out.push(s1);
                if a != b {
                    let mut s2 = String::new();
                    s2.push(b);
                    s2.push_str(&run);
                    out.push(s2);
                    let mut s3 = run.clone();
                    s3.push(b);
                    s3.push(a);
                    out.push(s3);
                }
            }
        }
    }
    out
}

/// b a^k c: a run between two *different* other symbols (a base, a run of marks, one more
/// mark; a letter, a run of spaces, a digit ...), over a small alphabet, for run lengths around
/// 30, 32 and 64
pub fn pumped3(sigma: &[char]) -> Vec<String> {
    let mut out = Vec::new();
    for &a in sigma {
        for &b in sigma {
            for &c in sigma {
                if a == b || a == c {
                    continue;
                }
                for k in [29usize, 30, 31, 32, 33, 63, 64, 65] {
                    let mut s = String::new();
                    s.push(b);
                    for _ in 0..k {
                        s.push(a);
                    }
                    s.push(c);
                    out.push(s);
                }
            }
        }
    }
    out
}

/// combining marks that differ in every respect a normaliser cares about: composes with Latin
/// bases / never composes, combining class 230 / 220 / 1
pub const MARKS: [char; 4] = ['\u{301}', '\u{305}', '\u{323}', '\u{334}'];

pub const PUMP_LENGTHS: [usize; 14] = [6, 7, 8, 9, 15, 16, 17, 30, 31, 32, 33, 63, 64, 65];
pub const PUMP_LENGTHS_LONG: [usize; 8] = [127, 128, 129, 255, 256, 257, 1023, 1025];
/// around 2^16: a length or an offset kept in 16 bits
pub const PUMP_LENGTHS_HUGE: [usize; 3] = [65535, 65536, 65537];

/// Every ASCII character at every offset of an otherwise plain ASCII string whose length is
/// around a multiple of 8 (word-at-a-time / chunked fast paths)
pub fn ascii_blocks() -> Vec<String> {
    ascii_blocks_with('a')
}

/// `ascii_blocks` over a chosen filler character (a lower-case letter, a digit: what surrounds
/// the odd character decides whether a range test done on a whole word borrows or carries)
pub fn ascii_blocks_with(filler: char) -> Vec<String> {
    let mut out = Vec::new();
    for total in [7usize, 8, 9, 15, 16, 17, 24, 25, 32, 33] {
        for pos in 0..total {
            for x in 0u8..128 {
                let mut s = String::with_capacity(total);
                for i in 0..total {
                    s.push(if i == pos { x as char } else { filler });
                }
                out.push(s);
                // the same character twice in a row, straddling every offset (block boundaries)
                if pos + 1 < total {
                    let mut d = String::with_capacity(total);
                    for i in 0..total {
                        d.push(if i == pos || i == pos + 1 { x as char } else { filler });
                    }
                    out.push(d);
                }
            }
        }
    }
    out
}

/// Alphabet symbols inside a plain ASCII filler: x at every byte offset, and x followed `gap`
/// filler bytes later by y, for all x, y of the alphabet, in strings long enough to have an
/// unaligned head, an aligned body and a tail at every placement. This is the shape a search
/// that skips "uninteresting" bytes a word at a time, and resumes after a rejected candidate,
/// gets wrong.
pub fn sparse_blocks(sigma: &[char], tier: Tier) -> Vec<String> {
    sparse_blocks_with(sigma, sigma, tier)
}

/// singles over `sigma`, pairs (x, y) with x, y over `pair_sigma`
pub fn sparse_blocks_with(sigma: &[char], pair_sigma: &[char], tier: Tier) -> Vec<String> {
    let totals: &[usize] = tier.pick(&[17, 26, 33], &[16, 17, 24, 26, 33, 40, 41]);
    let gaps: &[usize] = tier.pick(&[0, 1, 2, 3, 5], &[0, 1, 2, 3, 4, 5, 6, 7, 9]);
    let mut out = Vec::new();
    for &total in totals {
        for pos in 0..total {
            for &x in sigma {
                let mut s = String::with_capacity(total + 8);
                for _ in 0..pos {
                    s.push('a');
                }
                s.push(x);
                let tail = total.saturating_sub(pos + 1);
                let mut single = s.clone();
                for _ in 0..tail {
                    single.push('a');
                }
                out.push(single);
                if !pair_sigma.contains(&x) {
                    continue;
                }
                for &gap in gaps {
                    if gap > tail {
                        continue;
                    }
                    for &y in pair_sigma {
                        let mut t = s.clone();
                        for _ in 0..gap {
                            t.push('a');
                        }
                        t.push(y);
                        for _ in 0..(tail - gap) {
                            t.push('a');
                        }
                        out.push(t);
                    }
                }
            }
        }
    }
    out
}

/// Strings of a little over 1 MiB (thorough: 16 MiB for a few symbols): x a^N x, a^N x, x a^N -
/// bulk paths that switch algorithm above a size threshold
pub fn mega(sigma: &[char], tier: Tier) -> Vec<String> {
    let mut out = Vec::new();
    let take = tier.pick(20usize, sigma.len());
    let sizes: &[(usize, usize)] = tier.pick(&[(1 << 20, usize::MAX)], &[(1 << 20, usize::MAX), (1 << 24, 4)]);
    for &(n, limit) in sizes {
        let run: String = "a".repeat(n);
        for &x in sigma.iter().take(take.min(limit)) {
            let mut s1 = String::with_capacity(n + 8);
            s1.push(x);
            s1.push_str(&run);
            out.push(s1.clone());
            s1.push(x);
            out.push(s1);
            let mut s2 = run.clone();
            s2.push(x);
            out.push(s2);
        }
    }
    out
}

/// a^k b for EVERY k in 1..=max_k and every (a, b) of `pairs`: a buffer of N slots, a page, an
/// inline capacity - whatever fixed size an implementation introduces, some k sits exactly on it.
/// Strings are built on the fly (one task per pair and block of lengths).
pub fn run_all_lengths<F>(pairs: &[(char, char)], max_k: usize, f: F) -> Stats
where
    F: Fn(&str, &mut Stats) + Sync,
{
    let blocks: Vec<(char, char, usize)> = pairs.iter().flat_map(|&(a, b)| (0..max_k.div_ceil(64)).map(move |i| (a, b, i * 64))).collect();
    let shards: Vec<Stats> = blocks
        .par_iter()
        .map(|&(a, b, lo)| {
            let mut st = Stats::default();
            let mut s: String = std::iter::repeat(a).take(lo).collect();
            for _k in (lo + 1)..=(lo + 64).min(max_k) {
                s.push(a);
                s.push(b);
                st.states += 1;
                st.transitions += 1;
                f(&s, &mut st);
                s.pop();
            }
            st
        })
        .collect();
    let mut total = Stats::default();
    for s in shards {
        total.merge(s);
    }
    total
}

/// a^k followed by every tail of two or three symbols (k = 1..=130): what sits right behind a run
/// whose length puts it on a chunk boundary - "the last thing the fast path saw" handed over to
/// the slow path. And two runs at once: [p] a^i s b^j s c for all i, j up to 40.
pub fn run_tails_and_two_runs<F>(sigma: &[char], f: F) -> Stats
where
    F: Fn(&str, &mut Stats) + Sync,
{
    let t: Vec<char> = sigma.iter().take(6).copied().collect();
    let heads: Vec<char> = sigma.iter().take(3).copied().collect();
    let mut tails: Vec<String> = Vec::new();
    for &x in &t {
        for &y in &t {
            tails.push([x, y].iter().collect());
            for &z in &t {
                tails.push([x, y, z].iter().collect());
            }
        }
    }
    let jobs: Vec<(char, usize)> = heads.iter().flat_map(|a| (0..130usize.div_ceil(10)).map(move |b| (*a, b * 10))).collect();
    let mut shards: Vec<Stats> = jobs
        .par_iter()
        .map(|&(a, lo)| {
            let mut st = Stats::default();
            let mut s: String = std::iter::repeat(a).take(lo).collect();
            for _k in (lo + 1)..=(lo + 10) {
                s.push(a);
                let base = s.len();
                for tl in &tails {
                    s.push_str(tl);
                    st.states += 1;
                    st.transitions += 1;
                    f(&s, &mut st);
                    s.truncate(base);
                }
            }
            st
        })
        .collect();
    // two runs: separators from the first six symbols, run symbols = the first two
    if heads.len() >= 2 {
        let (a, b) = (heads[0], heads[1]);
        let seps: Vec<char> = t.clone();
        let more: Vec<Stats> = (0..=40usize)
            .into_par_iter()
            .map(|i| {
                let mut st = Stats::default();
                for j in 0..=40usize {
                    for &sp in &seps {
                        for lead in [false, true] {
                            let mut s = String::new();
                            if lead {
                                s.push(sp);
                            }
                            for _ in 0..i {
                                s.push(a);
                            }
                            s.push(sp);
                            for _ in 0..j {
                                s.push(b);
                            }
                            s.push(sp);
                            s.push(a);
                            st.states += 1;
                            st.transitions += 1;
                            f(&s, &mut st);
                        }
                    }
                }
                st
            })
            .collect();
        shards.extend(more);
    }
    let mut total = Stats::default();
    for s in shards {
        total.merge(s);
    }
    total
}

/// The structural families every string-level check runs on top of its tree and sweep: pumped
/// runs, ASCII blocks over two fillers and sparse blocks over the check's alphabet - each at
/// every placement of the tier - plus the long pumped runs (unplaced).
pub fn run_structural<F>(sigma: &[char], tier: Tier, f: F) -> Stats
where
    F: Fn(&str, &mut Stats) + Sync,
{
    let mut placed = pumped(sigma, &PUMP_LENGTHS);
    placed.extend(ascii_blocks_with('a'));
    placed.extend(ascii_blocks_with('0'));
    // pairs over the first 16 symbols (every alphabet lists its byte-shape and mapping classes first)
    placed.extend(sparse_blocks_with(sigma, &sigma[..sigma.len().min(16)], tier));
    let long = pumped(&sigma[..sigma.len().min(6)], &PUMP_LENGTHS_LONG);
    let mut huge = pumped(&sigma[..sigma.len().min(3)], &PUMP_LENGTHS_HUGE);
    huge.extend(mega(sigma, tier));
    let mut st = run_family_placed(&placed, &placements(tier), &f);
    st.merge(run_family(&long, &f));
    // b a^k c over the first ten symbols and four marks of different behaviour
    let mut tri: Vec<char> = sigma.iter().take(10).copied().collect();
    for m in MARKS {
        if !tri.contains(&m) {
            tri.push(m);
        }
    }
    st.merge(run_family(&pumped3(&tri), &f));
    st.merge(run_family(&huge, &f));
    // every run length up to a little over a page, for all pairs of the first three symbols
    let first: Vec<char> = sigma.iter().take(3).copied().collect();
    let pairs: Vec<(char, char)> = first.iter().flat_map(|a| first.iter().map(move |b| (*a, *b))).collect();
    st.merge(run_all_lengths(&pairs, tier.pick(4200, 8400), &f));
    st.merge(run_tails_and_two_runs(sigma, &f));
    st.add("family:placed_strings", placed.len() as u64);
    st.add("family:placements", placements(tier).len() as u64);
    st
}

/// "Same buffer" histories: every ordered pair (A, B) of distinct strings of equal byte length
/// from `strings` is presented to `f` one after the other **in the same String allocation**
/// (clear + push_str keeps the pointer), on one thread. This is what a cache keyed by the
/// address and length of its argument confuses.
pub fn same_buffer_pairs<F>(strings: &[String], f: F) -> Stats
where
    F: Fn(&str, &mut Stats) + Sync,
{
    let mut by_len: BTreeMap<usize, Vec<&String>> = BTreeMap::new();
    for s in strings {
        by_len.entry(s.len()).or_default().push(s);
    }
    let groups: Vec<Vec<&String>> = by_len.into_values().filter(|g| g.len() >= 2).collect();
    let shards: Vec<Stats> = groups
        .par_iter()
        .map(|g| {
            let mut st = Stats::default();
            let mut buf = String::with_capacity(64);
            for a in g.iter() {
                for b in g.iter() {
                    if a == b {
                        continue;
                    }
                    st.states += 1;
                    st.transitions += 2;
                    buf.clear();
                    buf.push_str(a);
                    f(&buf, &mut st);
                    buf.clear();
                    buf.push_str(b);
                    f(&buf, &mut st);
                }
            }
            st
        })
        .collect();
    let mut total = Stats::default();
    for s in shards {
        total.merge(s);
    }
    total
}

/// "Returned buffer" histories: `produce(a)` makes a library call that returns an owned String
/// r; the caller clears r, refills it with another string b of exactly the old byte length and
/// passes it back in (`f(&r)`), for every a of `strings` and every b of `strings` of that length.
/// This is what "the argument is the buffer I handed out last time, so I know what is in it"
/// gets wrong.
pub fn returned_buffer_histories<P, F>(strings: &[String], produce: P, f: F) -> Stats
where
    P: Fn(&str) -> Option<String> + Sync,
    F: Fn(&str, &mut Stats) + Sync,
{
    let mut by_len: BTreeMap<usize, Vec<&String>> = BTreeMap::new();
    for s in strings {
        by_len.entry(s.len()).or_default().push(s);
    }
    let shards: Vec<Stats> = strings
        .par_chunks(16)
        .map(|chunk| {
            let mut st = Stats::default();
            for a in chunk {
                let n = match produce(a) {
                    Some(r) => r.len(),
                    None => continue,
                };
                let group = match by_len.get(&n) {
                    Some(g) => g,
                    None => continue,
                };
                for b in group {
                    if let Some(mut r) = produce(a) {
                        if r.len() != n || r == **b {
                            continue;
                        }
                        st.states += 1;
                        st.transitions += 2;
                        r.clear();
                        r.push_str(b);
                        f(&r, &mut st);
                    }
                }
            }
            st.count("out:returned-buffer-history");
            st
        })
        .collect();
    let mut total = Stats::default();
    for s in shards {
        total.merge(s);
    }
    total
}

/// all strings of length 1..=n over `sigma`
pub fn all_strings(sigma: &[char], n: usize) -> Vec<String> {
    let mut out: Vec<String> = Vec::new();
    let mut frontier: Vec<String> = vec![String::new()];
    for _ in 0..n {
        let mut next = Vec::new();
        for f in &frontier {
            for c in sigma {
                let mut t = f.clone();
                t.push(*c);
                next.push(t);
            }
        }
        out.extend(next.iter().cloned());
        frontier = next;
    }
    out
}

/// Run `f` over a family of strings on the thread pool (one state per string).
pub fn run_family<F>(strings: &[String], f: F) -> Stats
where
    F: Fn(&str, &mut Stats) + Sync,
{
    // long strings are few and expensive: one task each
    let chunk = if strings.iter().map(|s| s.len()).max().unwrap_or(0) > 4096 { 1 } else { 256 };
    let shards: Vec<Stats> = strings
        .par_chunks(chunk)
        .map(|chunk| {
            let mut st = Stats::default();
            for s in chunk {
                st.states += 1;
                st.transitions += 1;
                if s.len() > (1 << 16) {
                    // linear work on megabytes takes seconds on a loaded machine: the "does not
                    // return" limit grows with the input (30 s per MiB on top of the base limit)
                    crate::watch::with_allowance(30 + 30 * (s.len() as u64 >> 20), || f(s, &mut st));
                } else {
                    f(s, &mut st);
                    // the same long label once more, right away on the same thread: the answer to
                    // a call must not depend on the call before it being the same one ("this is what
                    // I produced / saw last time")
                    if s.len() >= 24 {
                        f(s, &mut st);
                    }
                }
            }
            st
        })
        .collect();
    let mut total = Stats::default();
    for s in shards {
        total.merge(s);
    }
    total
}

/// Run `f` over a family of strings, each presented at every address residue in `aligns`
/// (modulo 16) as a sub-slice of a larger buffer: word-at-a-time and SIMD fast paths split
/// their argument into an unaligned head, aligned body and tail that depend on the address.
pub fn run_family_placed<F>(strings: &[String], aligns: &[u8], f: F) -> Stats
where
    F: Fn(&str, &mut Stats) + Sync,
{
    let shards: Vec<Stats> = strings
        .par_chunks(64)
        .map(|chunk| {
            let mut st = Stats::default();
            for s in chunk {
                for &k in aligns {
                    st.states += 1;
                    st.transitions += 1;
                    let p = Placed::new(s, k);
                    PLACE.with(|c| c.set(Some(k)));
                    f(p.as_str(), &mut st);
                    if s.len() >= 24 && k == 0 {
                        f(p.as_str(), &mut st);
                    }
                    PLACE.with(|c| c.set(None));
                }
            }
            st
        })
        .collect();
    let mut total = Stats::default();
    for s in shards {
        total.merge(s);
    }
    total
}

pub fn placements(tier: Tier) -> Vec<u8> {
    match tier {
        Tier::Quick => (0..8).collect(),
        Tier::Thorough => (0..16).collect(),
    }
}

/// Every scalar value, in order, chunked for the thread pool.
pub fn cpsweep<F>(f: F) -> Stats
where
    F: Fn(char, &mut Stats) + Sync,
{
    let chunks: Vec<u32> = (0..0x110000u32).step_by(0x400).collect();
    let shards: Vec<Stats> = chunks
        .par_iter()
        .map(|&base| {
            let mut st = Stats::default();
            for cp in base..base + 0x400 {
                if lite() && !(cp < 0x3100 || (0xF900..0x11000).contains(&cp) || cp % 61 == 0) {
                    continue;
                }
                if let Some(c) = char::from_u32(cp) {
                    st.states += 1;
                    st.transitions += 1;
                    f(c, &mut st);
                }
            }
            st
        })
        .collect();
    let mut total = Stats::default();
    for s in shards {
        total.merge(s);
    }
    total
}

/// Every u32 in `ranges` (inclusive bounds), chunked.
pub fn u32sweep<F>(ranges: &[(u32, u32)], f: F) -> Stats
where
    F: Fn(u32, &mut Stats) + Sync,
{
    const CH: u64 = 1 << 16;
    let mut chunks: Vec<(u64, u64)> = Vec::new();
    for &(lo, hi) in ranges {
        let mut a = lo as u64;
        let hi = hi as u64;
        while a <= hi {
            let b = (a + CH - 1).min(hi);
            chunks.push((a, b));
            a = b + 1;
        }
    }
    let shards: Vec<Stats> = chunks
        .par_iter()
        .map(|&(a, b)| {
            let mut st = Stats::default();
            for v in a..=b {
                if lite() && !(v < 0x3100 || (0xF900..0x11000).contains(&v) || v % 61 == 0) {
                    continue;
                }
                st.states += 1;
                st.transitions += 1;
                f(v as u32, &mut st);
            }
            st
        })
        .collect();
    let mut total = Stats::default();
    for s in shards {
        total.merge(s);
    }
    total
}

/// Values with at most two bits set, +-1, and a stride lattice: the quick-tier
/// stand-in for "all u32 above the Unicode range".
pub fn u32_lattice() -> Vec<u32> {
    let mut v: Vec<u32> = Vec::new();
    for i in 0..32 {
        for j in i..32 {
            let x = (1u32 << i) | (1u32 << j);
            v.push(x);
            v.push(x.wrapping_sub(1));
            v.push(x.wrapping_add(1));
        }
    }
    let mut x: u64 = 0;
    while x <= u32::MAX as u64 {
        v.push(x as u32);
        x += 4099 * 257;
    }
    v.extend_from_slice(&[0, 1, 0xD7FF, 0xD800, 0xDBFF, 0xDC00, 0xDFFF, 0xE000, 0x10FFFF, 0x110000, 0x1FFFFF, 0x200000, u32::MAX - 1, u32::MAX, 0x7FFFFFFF, 0x80000000]);
    v.sort_unstable();
    v.dedup();
    v
}

// ---------------------------------------------------------------------------
// Known findings
// ---------------------------------------------------------------------------

#[derive(Clone, Debug)]
pub struct KnownFinding {
    pub property: String,
    pub id: String,
    pub text: String,
}

pub fn load_known_findings() -> Result<Vec<KnownFinding>, String> {
    let p = verif_dir().join("KNOWN_FINDINGS.txt");
    let text = match fs::read_to_string(&p) {
        Ok(t) => t,
        Err(_) => return Ok(vec![]),
    };
    let mut out = vec![];
    for line in text.lines() {
        let line = line.trim();
        if line.is_empty() || line.starts_with('#') || line.starts_with("fixed:") {
            continue;
        }
        if let Some(rest) = line.strip_prefix("finding:") {
            let (head, text) = match rest.find("::") {
                Some(i) => (&rest[..i], rest[i + 2..].trim()),
                None => (rest, ""),
            };
            let mut property = String::new();
            let mut id = String::new();
            for tok in head.split_whitespace() {
                if let Some(v) = tok.strip_prefix("property=") {
                    property = v.to_string();
                } else if let Some(v) = tok.strip_prefix("match=") {
                    id = v.to_string();
                }
            }
            if property.is_empty() || id.is_empty() {
                return Err(format!("KNOWN_FINDINGS.txt: malformed line: {}", line));
            }
            out.push(KnownFinding {
                property,
                id,
                text: text.to_string(),
            });
        } else {
            return Err(format!("KNOWN_FINDINGS.txt: unrecognised line: {}", line));
        }
    }
    Ok(out)
}

// ---------------------------------------------------------------------------
// Run context, evidence, replay, exit
// ---------------------------------------------------------------------------

pub struct Run {
    pub prop: String,
    pub tier: Tier,
    pub seed: u64,
    pub start: Instant,
    pub known: Vec<KnownFinding>,
}

impl Run {
    pub fn is_known(&self, kind: &str) -> Option<&KnownFinding> {
        if kind.is_empty() {
            return None;
        }
        self.known
            .iter()
            .find(|k| k.property == self.prop && k.id == kind)
    }
}

pub struct Coverage {
    pub rule: String,
    pub alphabet: Value,
    pub bound_completed: String,
    pub exhaustive: bool,
    pub assumptions: Vec<String>,
    pub extra: Value,
}

fn rust_lit(cps: &[u32]) -> String {
    let mut o = String::from("\"");
    for c in cps {
        match char::from_u32(*c) {
            Some(ch) if ch.is_ascii_alphanumeric() || ch == ' ' => o.push(ch),
            _ => o.push_str(&format!("\\u{{{:x}}}", c)),
        }
    }
    o.push('"');
    o
}

/// a plain unit test that replays the case without the explorer (best effort, per operation)
fn unit_test_for(v: &Violation) -> String {
    let c = &v.case;
    let mut s0 = c.strs.first().map(|s| rust_lit(s)).unwrap_or_else(|| "\"\"".into());
    let mut prelude = String::new();
    if let Some(k) = c.align.filter(|k| k % 16 != 0) {
        // the case depends on where the string lies in memory: rebuild that placement
        prelude = format!(
            "let text = {};\n    let mut buf = vec![0xEFu8; text.len() + 48];\n    let off = 16 + ({} + 16 - buf.as_ptr() as usize % 16) % 16;\n    buf[off..off + text.len()].copy_from_slice(text.as_bytes());\n    let placed = std::str::from_utf8(&buf[off..off + text.len()]).unwrap(); // address % 16 == {}\n    ",
            s0, k, k
        );
        s0 = "placed".into();
    }
    let s1 = c.strs.get(1).map(|s| rust_lit(s)).unwrap_or_else(|| "\"\"".into());
    let prof = c.extra.as_str().map(|s| s.to_string()).or_else(|| c.extra.get(0).and_then(|x| x.as_str()).map(|s| s.to_string())).unwrap_or_default();
    let body = match c.op.as_str() {
        "prepare" | "enforce" => format!("let r = precis_profiles::{}::new().{}({});", prof, c.op, s0),
        "compare" => format!("let r = precis_profiles::{}::new().compare({}, {});", prof, s0, s1),
        "rulefn" => format!("let r = precis_profiles::{}::new().{}({});", prof, c.extra.get(1).and_then(|x| x.as_str()).unwrap_or("?"), s0),
        "dir" => format!("let r = precis_profiles::{}::new().directionality_rule({});", prof, s0),
        "allows" => format!("let r = precis_core::{}Class::default().allows({});", prof, s0),
        "rule" => format!("let r = precis_core::context::{}({}, {});", prof, s0, c.nums.first().copied().unwrap_or(0)),
        "classify" => format!("let r = (precis_core::IdentifierClass::default().get_value_from_codepoint({0:#x}), precis_core::FreeformClass::default().get_value_from_codepoint({0:#x}));", c.nums.first().copied().unwrap_or(0)),
        "op" => format!("// operation {} on the input below; see case.extra\n    let s = {};\n    let r = precis_profiles::Nickname::new().enforce(s);", c.extra, s0),
        _ => return String::new(),
    };
    format!(
        "use precis_core::profile::{{Profile, Rules}};\nuse precis_core::StringClass;\n#[test]\nfn replay() {{\n    {}{}\n    // expected: {}\n    // observed: {}\n    panic!(\"{{:?}}\", r);\n}}\n",
        prelude,
        body,
        v.expected.replace('\n', " "),
        v.actual.replace('\n', " ")
    )
}

fn write_replay(run: &Run, v: &Violation, n: usize) -> PathBuf {
    let dir = out_dir().join("replays").join(&run.prop);
    let _ = fs::create_dir_all(&dir);
    let body = json!({
        "property": run.prop,
        "kind": v.kind,
        "case": v.case.to_json(),
        "case_readable": v.case.strs.iter().map(|s| crate::subject::show(&crate::subject::from_cps(s))).collect::<Vec<_>>(),
        "expected": v.expected,
        "actual": v.actual,
        "replay_cmd": format!("./check {} --replay <this file>", run.prop),
        "unit_test": unit_test_for(v),
        "build_profile": if deep() { "deep" } else if lite() { "userrel" } else { "release-with-checks" },
    });
    let text = serde_json::to_string_pretty(&body).unwrap();
    // name by content hash (FNV) so the same case maps to the same file
    let mut h: u64 = 0xcbf29ce484222325;
    for b in serde_json::to_string(&v.case.to_json()).unwrap().bytes() {
        h ^= b as u64;
        h = h.wrapping_mul(0x100000001b3);
    }
    let p = dir.join(format!("{:02}-{:016x}.json", n, h));
    let _ = fs::write(&p, text);
    p
}

/// Finish a run: confirm violations by re-execution, print the verdict lines,
/// write evidence and replays, return the process exit code.
pub fn finish<R>(run: &Run, mut st: Stats, cov: Coverage, replay: R) -> i32
where
    R: Fn(&Case) -> Vec<Violation>,
{
    // order violations: smallest case first (shortest counterexample)
    st.violations.sort_by(|a, b| {
        a.case
            .size()
            .cmp(&b.case.size())
            .then_with(|| a.case.strs.cmp(&b.case.strs))
            .then_with(|| a.case.op.cmp(&b.case.op))
    });
    st.violations.dedup_by(|a, b| a.case == b.case && a.kind == b.kind && a.actual == b.actual);
    let mut known_counts: BTreeMap<String, (u64, Option<Violation>)> = BTreeMap::new();
    let mut real: Vec<Violation> = Vec::new();
    let mut real_count: u64 = 0;
    for (k, n) in st.counters.iter() {
        if let Some(kind) = k.strip_prefix("viol:") {
            if run.is_known(kind).is_some() {
                known_counts.entry(kind.to_string()).or_insert((0, None)).0 += n;
            } else {
                real_count += n;
            }
        }
    }
    for v in st.violations.iter() {
        if run.is_known(&v.kind).is_some() {
            let e = known_counts.entry(v.kind.clone()).or_insert((0, None));
            if e.1.is_none() {
                e.1 = Some(v.clone());
            }
        } else {
            real.push(v.clone());
        }
    }
    let mut machinery_error: Option<String> = None;
    // re-execute before reporting. A violation that does not reproduce when its case is run
    // again in isolation is still a violation (the implementation gave that answer once): it
    // then depended on something other than the arguments - call history or other threads -
    // and is reported as such.
    let mut confirmed: Vec<Violation> = Vec::new();
    for v in real.iter().take(10) {
        let again = replay(&v.case);
        if again
            .iter()
            .any(|w| w.kind == v.kind && w.expected == v.expected && w.actual == v.actual)
        {
            confirmed.push(v.clone());
        } else {
            let mut w = v.clone();
            w.actual = format!(
                "{} [NOT reproduced when this case is re-run in isolation (re-run gave {}): the answer depended on call history or concurrency]",
                v.actual,
                if again.is_empty() { "no violation".to_string() } else { again.iter().map(|x| x.actual.clone()).collect::<Vec<_>>().join(" / ") }
            );
            confirmed.push(w);
        }
    }
    let mut replay_paths: Vec<String> = Vec::new();
    if machinery_error.is_none() {
        for (n, v) in confirmed.iter().enumerate().take(5) {
            let p = write_replay(run, v, n);
            replay_paths.push(p.display().to_string());
        }
    }
    let wall = run.start.elapsed().as_secs_f64();
    let outcomes: Vec<(&String, &u64)> = st.counters.iter().filter(|(k, _)| k.starts_with("out:")).collect();
    let mut coverage = json!({
        "states": st.states,
        "transitions": st.transitions,
        "traces_validated_against_impl": st.traces,
        "evaluations": st.evaluations,
        "distinct_nontrivial": st.nontrivial,
        "rule": cov.rule,
        "samples": st.samples,
        "alphabet": cov.alphabet,
        "bound_completed": cov.bound_completed,
        "exhaustive": cov.exhaustive,
        "outcomes_distinct": outcomes.len(),
        "outcome_counts": outcomes.iter().map(|(k, v)| (k.trim_start_matches("out:").to_string(), json!(v))).collect::<serde_json::Map<String, Value>>(),
        "counters": st.counters.iter().filter(|(k, _)| !k.starts_with("out:")).map(|(k, v)| (k.clone(), json!(v))).collect::<serde_json::Map<String, Value>>(),
        "caps_hit": st.caps_hit,
        "notes": st.notes,
        "known_findings_matched": known_counts.iter().map(|(k, (n, ex))| json!({"match": k, "count": n, "example": ex.as_ref().map(|v| json!({"case": v.case.to_json(), "expected": v.expected, "actual": v.actual}))})).collect::<Vec<_>>(),
        "violation_examples": confirmed.iter().take(5).map(|v| json!({"kind": v.kind, "case": v.case.to_json(), "expected": v.expected, "actual": v.actual})).collect::<Vec<_>>(),
        "replays": replay_paths,
    });
    if let (Some(m), Some(x)) = (coverage.as_object_mut(), cov.extra.as_object()) {
        for (k, v) in x {
            m.insert(k.clone(), v.clone());
        }
    }
    if st.samples.is_empty() {
        coverage["samples"] = json!(["<no samples recorded>"]);
    }
    let ev = json!({
        "property_id": run.prop,
        "tier": run.tier.name(),
        "seed": run.seed,
        "level": "model_checking",
        "coverage": coverage,
        "assumptions": cov.assumptions,
        "wall_s": wall,
        "violations": real_count,
    });
    let evdir = out_dir().join("evidence");
    let _ = fs::create_dir_all(&evdir);
    let evp = evdir.join(format!("{}.json", run.prop));
    if machinery_error.is_none() && !lite() {
        if let Err(e) = fs::write(&evp, serde_json::to_string_pretty(&ev).unwrap()) {
            machinery_error = Some(format!("cannot write evidence: {}", e));
        }
    }
    if deep() {
        println!("-- unoptimised build, long runs on 256 KiB stacks --");
    } else if lite() {
        println!("-- plain release profile (no overflow checks / debug assertions), reduced space --");
    }
    println!(
        "{} tier={} states={} transitions={} evaluations={} validated={} nontrivial={} outcomes={} wall={:.1}s",
        run.prop,
        run.tier.name(),
        st.states,
        st.transitions,
        st.evaluations,
        st.traces,
        st.nontrivial,
        outcomes.len(),
        wall
    );
    for n in &st.notes {
        println!("NOTE: {}", n);
    }
    for c in &st.caps_hit {
        println!("CAP: {}", c);
    }
    if let Some(m) = machinery_error {
        println!("MACHINERY-ERROR property={} {}", run.prop, m);
        return 2;
    }
    for (k, (n, ex)) in known_counts.iter() {
        if *n == 0 {
            continue;
        }
        let kf = run.is_known(k).unwrap();
        let exs = ex
            .as_ref()
            .map(|v| {
                format!(
                    " e.g. {} {} expected {} got {}",
                    v.case.op,
                    v.case
                        .strs
                        .iter()
                        .map(|s| crate::subject::show(&crate::subject::from_cps(s)))
                        .collect::<Vec<_>>()
                        .join(","),
                    v.expected,
                    v.actual
                )
            })
            .unwrap_or_default();
        println!(
            "KNOWN-FINDING: property={} match={} count={} {}{}",
            run.prop, k, n, kf.text, exs
        );
    }
    if real_count > 0 {
        for (v, p) in confirmed.iter().zip(replay_paths.iter()) {
            println!(
                "  violation[{}] op={} args={} expected={} actual={}",
                v.kind,
                v.case.op,
                v.case
                    .strs
                    .iter()
                    .map(|s| crate::subject::show(&crate::subject::from_cps(s)))
                    .collect::<Vec<_>>()
                    .join(","),
                v.expected,
                v.actual
            );
            println!("VIOLATION property={} replay={}", run.prop, p);
        }
        if confirmed.is_empty() {
            // counted but no example kept (should not happen): still honour the interface
            let p = out_dir().join("replays").join(&run.prop);
            let _ = fs::create_dir_all(&p);
            let f = p.join("unlisted.txt");
            let _ = fs::write(&f, format!("{} violation(s) counted, kinds: {:?}", real_count, st.counters.iter().filter(|(k, _)| k.starts_with("viol:")).collect::<Vec<_>>()));
            println!("VIOLATION property={} replay={}", run.prop, f.display());
        }
        println!("{}: {} violation(s) in total", run.prop, real_count);
        return 1;
    }
    if let Some(m) = st.caps_hit.iter().find(|c| c.starts_with("MACHINERY")) {
        // part of the exploration could not be carried out: no verdict
        println!("MACHINERY-ERROR property={} {}", run.prop, m);
        return 2;
    }
    println!("{}: OK", run.prop);
    0
}
