//! Thin wrappers around the public API of the crates under test.
//! Every call runs under `catch_unwind`; results are mirrored into plain,
//! hashable outcome types (the library's `Error` is neither `Clone` nor `Hash`).

use precis_core::profile::{PrecisFastInvocation, Profile, Rules};
use precis_core::{DerivedPropertyValue, Error, FreeformClass, IdentifierClass, StringClass, UnexpectedError};
use precis_profiles::{Nickname, OpaqueString, UsernameCaseMapped, UsernameCasePreserved};
use std::borrow::Cow;
use std::cell::RefCell;
use std::panic::{catch_unwind, AssertUnwindSafe};

#[derive(Copy, Clone, PartialEq, Eq, Hash, Debug, PartialOrd, Ord)]
pub enum DP {
    PValid,
    SpecPval,
    SpecDis,
    ContextJ,
    ContextO,
    Disallowed,
    Unassigned,
}

impl DP {
    pub fn from_impl(v: DerivedPropertyValue) -> DP {
        match v {
            DerivedPropertyValue::PValid => DP::PValid,
            DerivedPropertyValue::SpecClassPval => DP::SpecPval,
            DerivedPropertyValue::SpecClassDis => DP::SpecDis,
            DerivedPropertyValue::ContextJ => DP::ContextJ,
            DerivedPropertyValue::ContextO => DP::ContextO,
            DerivedPropertyValue::Disallowed => DP::Disallowed,
            DerivedPropertyValue::Unassigned => DP::Unassigned,
        }
    }
    pub fn to_impl(self) -> DerivedPropertyValue {
        match self {
            DP::PValid => DerivedPropertyValue::PValid,
            DP::SpecPval => DerivedPropertyValue::SpecClassPval,
            DP::SpecDis => DerivedPropertyValue::SpecClassDis,
            DP::ContextJ => DerivedPropertyValue::ContextJ,
            DP::ContextO => DerivedPropertyValue::ContextO,
            DP::Disallowed => DerivedPropertyValue::Disallowed,
            DP::Unassigned => DerivedPropertyValue::Unassigned,
        }
    }
    pub const ALL: [DP; 7] = [
        DP::PValid,
        DP::SpecPval,
        DP::SpecDis,
        DP::ContextJ,
        DP::ContextO,
        DP::Disallowed,
        DP::Unassigned,
    ];
    pub fn is_contextual(self) -> bool {
        matches!(self, DP::ContextJ | DP::ContextO)
    }
    pub fn is_valid(self) -> bool {
        matches!(self, DP::PValid | DP::SpecPval)
    }
}

#[derive(Copy, Clone, PartialEq, Eq, Hash, Debug, PartialOrd, Ord)]
pub enum Class {
    Identifier,
    Freeform,
}

/// Mirror of `precis_core::Error`.
#[derive(Clone, PartialEq, Eq, Hash, Debug, PartialOrd, Ord)]
pub enum E {
    Invalid,
    Bad(u32, usize, DP),
    CtxNotApplicable(u32, usize, DP),
    MissingRule(u32, usize, DP),
    ProfileRuleNA,
    Undefined,
}

impl E {
    pub fn from_impl(e: &Error) -> E {
        match e {
            Error::Invalid => E::Invalid,
            Error::BadCodepoint(i) => E::Bad(i.cp, i.position, DP::from_impl(i.property)),
            Error::Unexpected(u) => match u {
                UnexpectedError::ContextRuleNotApplicable(i) => {
                    E::CtxNotApplicable(i.cp, i.position, DP::from_impl(i.property))
                }
                UnexpectedError::MissingContextRule(i) => {
                    E::MissingRule(i.cp, i.position, DP::from_impl(i.property))
                }
                UnexpectedError::ProfileRuleNotApplicable => E::ProfileRuleNA,
                UnexpectedError::Undefined => E::Undefined,
            },
        }
    }
}

/// Outcome of a string -> string operation.
#[derive(Clone, PartialEq, Eq, Hash, Debug, PartialOrd, Ord)]
pub enum Out {
    Ok(String),
    Err(E),
    Panic(String),
}

/// Outcome of compare.
#[derive(Clone, PartialEq, Eq, Hash, Debug, PartialOrd, Ord)]
pub enum OutB {
    Ok(bool),
    Err(E),
    Panic(String),
}

/// Outcome of `allows`.
#[derive(Clone, PartialEq, Eq, Hash, Debug, PartialOrd, Ord)]
pub enum OutU {
    Ok,
    Err(E),
    Panic(String),
}

thread_local! {
    static LAST_PANIC: RefCell<String> = RefCell::new(String::new());
    static IN_GUARD: std::cell::Cell<u32> = std::cell::Cell::new(0);
}

/// Install a panic hook that records the message instead of printing it.
pub fn silence_panics() {
    std::panic::set_hook(Box::new(|info| {
        let msg = if let Some(s) = info.payload().downcast_ref::<&str>() {
            s.to_string()
        } else if let Some(s) = info.payload().downcast_ref::<String>() {
            s.clone()
        } else {
            "<non-string panic>".to_string()
        };
        let loc = info
            .location()
            .map(|l| format!("{}:{}", l.file(), l.line()))
            .unwrap_or_default();
        if IN_GUARD.with(|g| g.get()) == 0 {
            // a panic of the harness itself: never swallow it
            eprintln!("HARNESS PANIC: {} @ {}", msg, loc);
        }
        LAST_PANIC.with(|p| *p.borrow_mut() = format!("{} @ {}", msg, loc));
    }));
}

pub fn last_panic() -> String {
    LAST_PANIC.with(|p| p.borrow().clone())
}

pub fn guard<T, F: FnOnce() -> T>(f: F) -> Result<T, String> {
    IN_GUARD.with(|g| g.set(g.get() + 1));
    crate::watch::call_enter();
    let r = catch_unwind(AssertUnwindSafe(f));
    crate::watch::call_leave();
    IN_GUARD.with(|g| g.set(g.get() - 1));
    match r {
        Ok(v) => Ok(v),
        Err(_) => Err(last_panic()),
    }
}

fn conv(r: Result<Result<Cow<'_, str>, Error>, String>) -> Out {
    match r {
        Ok(Ok(c)) => Out::Ok(c.into_owned()),
        Ok(Err(e)) => Out::Err(E::from_impl(&e)),
        Err(p) => Out::Panic(p),
    }
}

fn convb(r: Result<Result<bool, Error>, String>) -> OutB {
    match r {
        Ok(Ok(c)) => OutB::Ok(c),
        Ok(Err(e)) => OutB::Err(E::from_impl(&e)),
        Err(p) => OutB::Panic(p),
    }
}

#[derive(Copy, Clone, PartialEq, Eq, Hash, Debug, PartialOrd, Ord)]
pub enum Prof {
    Ucm,
    Ucp,
    Opaque,
    Nick,
}

impl Prof {
    pub const ALL: [Prof; 4] = [Prof::Ucm, Prof::Ucp, Prof::Opaque, Prof::Nick];
    pub fn name(self) -> &'static str {
        match self {
            Prof::Ucm => "UsernameCaseMapped",
            Prof::Ucp => "UsernameCasePreserved",
            Prof::Opaque => "OpaqueString",
            Prof::Nick => "Nickname",
        }
    }
    pub fn from_name(s: &str) -> Option<Prof> {
        Prof::ALL.iter().copied().find(|p| p.name() == s)
    }
    pub fn class(self) -> Class {
        match self {
            Prof::Ucm | Prof::Ucp => Class::Identifier,
            _ => Class::Freeform,
        }
    }
}

#[derive(Copy, Clone, PartialEq, Eq, Hash, Debug, PartialOrd, Ord)]
pub enum Op {
    Prepare,
    Enforce,
}

#[derive(Copy, Clone, PartialEq, Eq, Hash, Debug, PartialOrd, Ord)]
pub enum RuleFn {
    Width,
    Additional,
    Case,
    Norm,
    Dir,
}

impl RuleFn {
    pub const ALL: [RuleFn; 5] = [
        RuleFn::Width,
        RuleFn::Additional,
        RuleFn::Case,
        RuleFn::Norm,
        RuleFn::Dir,
    ];
    pub fn name(self) -> &'static str {
        match self {
            RuleFn::Width => "width_mapping_rule",
            RuleFn::Additional => "additional_mapping_rule",
            RuleFn::Case => "case_mapping_rule",
            RuleFn::Norm => "normalization_rule",
            RuleFn::Dir => "directionality_rule",
        }
    }
    pub fn from_name(s: &str) -> Option<RuleFn> {
        RuleFn::ALL.iter().copied().find(|p| p.name() == s)
    }
}

thread_local! {
    static USE_DEFAULT: std::cell::Cell<bool> = const { std::cell::Cell::new(false) };
}

/// run `f` with the instance API going through `T::default()` instead of `T::new()`
pub fn with_default_ctor<T, F: FnOnce() -> T>(f: F) -> T {
    USE_DEFAULT.with(|c| c.set(true));
    let r = f();
    USE_DEFAULT.with(|c| c.set(false));
    r
}

pub fn use_default() -> bool {
    USE_DEFAULT.with(|c| c.get())
}

macro_rules! with_profile {
    ($p:expr, $x:ident, $body:expr) => {
        match $p {
            Prof::Ucm => {
                let $x = if use_default() { UsernameCaseMapped::default() } else { UsernameCaseMapped::new() };
                $body
            }
            Prof::Ucp => {
                let $x = if use_default() { UsernameCasePreserved::default() } else { UsernameCasePreserved::new() };
                $body
            }
            Prof::Opaque => {
                let $x = if use_default() { OpaqueString::default() } else { OpaqueString::new() };
                $body
            }
            Prof::Nick => {
                let $x = if use_default() { Nickname::default() } else { Nickname::new() };
                $body
            }
        }
    };
}

/// Instance API, `&str` argument.
pub fn prepare(p: Prof, s: &str) -> Out {
    with_profile!(p, x, conv(guard(|| x.prepare(s))))
}

pub fn enforce(p: Prof, s: &str) -> Out {
    with_profile!(p, x, conv(guard(|| x.enforce(s))))
}

/// `enforce` through the instance API, handing out the very `String` the library returned when
/// the result is owned (None: borrowed result, error or panic) - for histories in which the
/// caller refills the returned buffer and passes it back in.
pub fn enforce_owned(p: Prof, s: &str) -> Option<String> {
    with_profile!(p, x, match guard(|| x.enforce(s).ok().and_then(|c| match c {
        Cow::Owned(o) => Some(o),
        Cow::Borrowed(_) => None,
    })) {
        Ok(v) => v,
        Err(_) => None,
    })
}

pub fn op(p: Prof, o: Op, s: &str) -> Out {
    match o {
        Op::Prepare => prepare(p, s),
        Op::Enforce => enforce(p, s),
    }
}

pub fn compare(p: Prof, a: &str, b: &str) -> OutB {
    with_profile!(p, x, convb(guard(|| x.compare(a, b))))
}

/// Static (lazy singleton) API.
pub fn prepare_static(p: Prof, s: &str) -> Out {
    match p {
        Prof::Ucm => conv(guard(|| <UsernameCaseMapped as PrecisFastInvocation>::prepare(s))),
        Prof::Ucp => conv(guard(|| <UsernameCasePreserved as PrecisFastInvocation>::prepare(s))),
        Prof::Opaque => conv(guard(|| <OpaqueString as PrecisFastInvocation>::prepare(s))),
        Prof::Nick => conv(guard(|| <Nickname as PrecisFastInvocation>::prepare(s))),
    }
}

pub fn enforce_static(p: Prof, s: &str) -> Out {
    match p {
        Prof::Ucm => conv(guard(|| <UsernameCaseMapped as PrecisFastInvocation>::enforce(s))),
        Prof::Ucp => conv(guard(|| <UsernameCasePreserved as PrecisFastInvocation>::enforce(s))),
        Prof::Opaque => conv(guard(|| <OpaqueString as PrecisFastInvocation>::enforce(s))),
        Prof::Nick => conv(guard(|| <Nickname as PrecisFastInvocation>::enforce(s))),
    }
}

pub fn compare_static(p: Prof, a: &str, b: &str) -> OutB {
    match p {
        Prof::Ucm => convb(guard(|| <UsernameCaseMapped as PrecisFastInvocation>::compare(a, b))),
        Prof::Ucp => convb(guard(|| <UsernameCasePreserved as PrecisFastInvocation>::compare(a, b))),
        Prof::Opaque => convb(guard(|| <OpaqueString as PrecisFastInvocation>::compare(a, b))),
        Prof::Nick => convb(guard(|| <Nickname as PrecisFastInvocation>::compare(a, b))),
    }
}

pub fn rule(p: Prof, r: RuleFn, s: &str) -> Out {
    with_profile!(
        p,
        x,
        match r {
            RuleFn::Width => conv(guard(|| x.width_mapping_rule(s))),
            RuleFn::Additional => conv(guard(|| x.additional_mapping_rule(s))),
            RuleFn::Case => conv(guard(|| x.case_mapping_rule(s))),
            RuleFn::Norm => conv(guard(|| x.normalization_rule(s))),
            RuleFn::Dir => conv(guard(|| x.directionality_rule(s))),
        }
    )
}

/// the same rule, handed an owned `String` (exercises the `Cow::Owned` paths)
pub fn rule_owned(p: Prof, r: RuleFn, s: &str) -> Out {
    rule_owned_cap(p, r, s, 0)
}

/// the same content in a String with spare capacity (in-place paths may look at capacity())
pub fn rule_owned_roomy(p: Prof, r: RuleFn, s: &str) -> Out {
    rule_owned_cap(p, r, s, 64)
}

fn rule_owned_cap(p: Prof, r: RuleFn, s: &str, spare: usize) -> Out {
    let mut o = String::with_capacity(s.len() + spare);
    o.push_str(s);
    with_profile!(
        p,
        x,
        match r {
            RuleFn::Width => conv(guard(|| x.width_mapping_rule(o))),
            RuleFn::Additional => conv(guard(|| x.additional_mapping_rule(o))),
            RuleFn::Case => conv(guard(|| x.case_mapping_rule(o))),
            RuleFn::Norm => conv(guard(|| x.normalization_rule(o))),
            RuleFn::Dir => conv(guard(|| x.directionality_rule(o))),
        }
    )
}

pub fn allows(c: Class, s: &str) -> OutU {
    let r = match c {
        Class::Identifier => guard(|| IdentifierClass::default().allows(s)),
        Class::Freeform => guard(|| FreeformClass::default().allows(s)),
    };
    match r {
        Ok(Ok(())) => OutU::Ok,
        Ok(Err(e)) => OutU::Err(E::from_impl(&e)),
        Err(p) => OutU::Panic(p),
    }
}

pub fn dp_cp(c: Class, cp: u32) -> Result<DP, String> {
    match c {
        Class::Identifier => guard(|| DP::from_impl(IdentifierClass::default().get_value_from_codepoint(cp))),
        Class::Freeform => guard(|| DP::from_impl(FreeformClass::default().get_value_from_codepoint(cp))),
    }
}

pub fn dp_char(c: Class, ch: char) -> Result<DP, String> {
    match c {
        Class::Identifier => guard(|| DP::from_impl(IdentifierClass::default().get_value_from_char(ch))),
        Class::Freeform => guard(|| DP::from_impl(FreeformClass::default().get_value_from_char(ch))),
    }
}

/// Table of the implementation's derived property for every scalar value
/// (index = code point; surrogates hold Disallowed and are never read).
pub struct DpTable {
    pub id: Vec<DP>,
    pub ff: Vec<DP>,
}

impl DpTable {
    /// A classification that panics is recorded as Disallowed here; C01/C14 call
    /// the classifier directly and report the panic itself.
    pub fn build() -> Result<DpTable, String> {
        use rayon::prelude::*;
        let both: Vec<(DP, DP)> = (0u32..0x110000)
            .into_par_iter()
            .map(|cp| match char::from_u32(cp) {
                Some(ch) => (
                    dp_char(Class::Identifier, ch).unwrap_or(DP::Disallowed),
                    dp_char(Class::Freeform, ch).unwrap_or(DP::Disallowed),
                ),
                None => (DP::Disallowed, DP::Disallowed),
            })
            .collect();
        Ok(DpTable {
            id: both.iter().map(|x| x.0).collect(),
            ff: both.iter().map(|x| x.1).collect(),
        })
    }
    #[inline]
    pub fn get(&self, c: Class, ch: char) -> DP {
        match c {
            Class::Identifier => self.id[ch as usize],
            Class::Freeform => self.ff[ch as usize],
        }
    }
}

#[derive(Copy, Clone, PartialEq, Eq, Hash, Debug, PartialOrd, Ord)]
pub enum CtxRule {
    Zwnj,
    Zwj,
    MiddleDot,
    Keraia,
    HebrewPunct,
    KatakanaDot,
    ArabicIndic,
    ExtArabicIndic,
}

#[derive(Clone, PartialEq, Eq, Hash, Debug, PartialOrd, Ord)]
pub enum CtxOut {
    Ok(bool),
    NotApplicable,
    Undefined,
    Panic(String),
}

impl CtxRule {
    pub const ALL: [CtxRule; 8] = [
        CtxRule::Zwnj,
        CtxRule::Zwj,
        CtxRule::MiddleDot,
        CtxRule::Keraia,
        CtxRule::HebrewPunct,
        CtxRule::KatakanaDot,
        CtxRule::ArabicIndic,
        CtxRule::ExtArabicIndic,
    ];
    pub fn name(self) -> &'static str {
        match self {
            CtxRule::Zwnj => "rule_zero_width_nonjoiner",
            CtxRule::Zwj => "rule_zero_width_joiner",
            CtxRule::MiddleDot => "rule_middle_dot",
            CtxRule::Keraia => "rule_greek_lower_numeral_sign_keraia",
            CtxRule::HebrewPunct => "rule_hebrew_punctuation",
            CtxRule::KatakanaDot => "rule_katakana_middle_dot",
            CtxRule::ArabicIndic => "rule_arabic_indic_digits",
            CtxRule::ExtArabicIndic => "rule_extended_arabic_indic_digits",
        }
    }
    pub fn from_name(s: &str) -> Option<CtxRule> {
        CtxRule::ALL.iter().copied().find(|p| p.name() == s)
    }
    pub fn func(self) -> precis_core::context::ContextRule {
        use precis_core::context::*;
        match self {
            CtxRule::Zwnj => rule_zero_width_nonjoiner,
            CtxRule::Zwj => rule_zero_width_joiner,
            CtxRule::MiddleDot => rule_middle_dot,
            CtxRule::Keraia => rule_greek_lower_numeral_sign_keraia,
            CtxRule::HebrewPunct => rule_hebrew_punctuation,
            CtxRule::KatakanaDot => rule_katakana_middle_dot,
            CtxRule::ArabicIndic => rule_arabic_indic_digits,
            CtxRule::ExtArabicIndic => rule_extended_arabic_indic_digits,
        }
    }
    pub fn owns(self, cp: u32) -> bool {
        match self {
            CtxRule::Zwnj => cp == 0x200c,
            CtxRule::Zwj => cp == 0x200d,
            CtxRule::MiddleDot => cp == 0x00b7,
            CtxRule::Keraia => cp == 0x0375,
            CtxRule::HebrewPunct => cp == 0x05f3 || cp == 0x05f4,
            CtxRule::KatakanaDot => cp == 0x30fb,
            CtxRule::ArabicIndic => (0x0660..=0x0669).contains(&cp),
            CtxRule::ExtArabicIndic => (0x06f0..=0x06f9).contains(&cp),
        }
    }
    pub fn owner_of(cp: u32) -> Option<CtxRule> {
        CtxRule::ALL.iter().copied().find(|r| r.owns(cp))
    }
}

pub fn conv_ctx(r: Result<Result<bool, precis_core::context::ContextRuleError>, String>) -> CtxOut {
    use precis_core::context::ContextRuleError;
    match r {
        Ok(Ok(b)) => CtxOut::Ok(b),
        Ok(Err(ContextRuleError::NotApplicable)) => CtxOut::NotApplicable,
        Ok(Err(ContextRuleError::Undefined)) => CtxOut::Undefined,
        Err(p) => CtxOut::Panic(p),
    }
}

pub fn ctx_rule(r: CtxRule, s: &str, pos: usize) -> CtxOut {
    let f = r.func();
    conv_ctx(guard(|| f(s, pos)))
}

/// Which rule function (if any) the registry returns for `cp`, identified by
/// function pointer equality against the eight public rule functions.
pub fn registry(cp: u32) -> Result<Option<Option<CtxRule>>, String> {
    guard(|| {
        precis_core::context::get_context_rule(cp).map(|f| {
            CtxRule::ALL
                .iter()
                .copied()
                .find(|r| r.func() as usize == f as usize)
        })
    })
}

pub fn registry_call(cp: u32, s: &str, pos: usize) -> Option<CtxOut> {
    match guard(|| precis_core::context::get_context_rule(cp)) {
        Ok(Some(f)) => Some(conv_ctx(guard(|| f(s, pos)))),
        Ok(None) => None,
        Err(p) => Some(CtxOut::Panic(p)),
    }
}

pub fn cps(s: &str) -> Vec<u32> {
    s.chars().map(|c| c as u32).collect()
}

pub fn from_cps(v: &[u32]) -> String {
    v.iter().filter_map(|c| char::from_u32(*c)).collect()
}

pub fn show(s: &str) -> String {
    let mut o = String::from("\"");
    for c in s.chars() {
        if c.is_ascii_graphic() {
            o.push(c);
        } else {
            o.push_str(&format!("\\u{{{:x}}}", c as u32));
        }
    }
    o.push('"');
    o
}
