//! Finite-automaton toolkit for conformance testing (Chow / Vasilevskii W-method).
//!
//! A specification is given as an explicit complete DFA. The test suite
//! `(S u S.Sigma) . Sigma^{<=m} . W` (S = state cover, W = characterisation set) decides
//! equivalence with ANY implementation automaton that has at most n + m states
//! (n = states of the minimal specification): if every test agrees, the two accept the
//! same strings of every length. The suite is enumerated exhaustively.

use std::collections::{BTreeMap, HashMap, VecDeque};
use std::hash::Hash;

pub struct Dfa {
    pub nsym: usize,
    /// trans[state][symbol]
    pub trans: Vec<Vec<usize>>,
    pub accept: Vec<bool>,
}

/// Build the reachable part of an automaton given by an initial state, a step function and
/// an acceptance predicate over a hashable state type.
pub fn explore<S: Clone + Eq + Hash, F: Fn(&S, usize) -> S, A: Fn(&S) -> bool>(init: S, nsym: usize, step: F, acc: A) -> (Dfa, Vec<S>) {
    let mut index: HashMap<S, usize> = HashMap::new();
    let mut states: Vec<S> = vec![init.clone()];
    index.insert(init, 0);
    let mut trans: Vec<Vec<usize>> = Vec::new();
    let mut q = VecDeque::from([0usize]);
    while let Some(i) = q.pop_front() {
        let s = states[i].clone();
        let mut row = Vec::with_capacity(nsym);
        for a in 0..nsym {
            let t = step(&s, a);
            let j = match index.get(&t) {
                Some(j) => *j,
                None => {
                    let j = states.len();
                    index.insert(t.clone(), j);
                    states.push(t);
                    q.push_back(j);
                    j
                }
            };
            row.push(j);
        }
        if trans.len() <= i {
            trans.resize(i + 1, Vec::new());
        }
        trans[i] = row;
    }
    let accept = states.iter().map(|s| acc(s)).collect();
    (Dfa { nsym, trans, accept }, states)
}

impl Dfa {
    pub fn run(&self, word: &[usize]) -> bool {
        let mut s = 0;
        for a in word {
            s = self.trans[s][*a];
        }
        self.accept[s]
    }

    /// Moore partition refinement; returns the minimal DFA (state 0 = initial)
    pub fn minimize(&self) -> Dfa {
        let n = self.trans.len();
        let mut class: Vec<usize> = self.accept.iter().map(|a| *a as usize).collect();
        let mut nclasses = class.iter().collect::<std::collections::BTreeSet<_>>().len();
        loop {
            let mut sig: BTreeMap<(usize, Vec<usize>), usize> = BTreeMap::new();
            let mut next = vec![0usize; n];
            for s in 0..n {
                let key = (class[s], self.trans[s].iter().map(|t| class[*t]).collect::<Vec<_>>());
                let k = sig.len();
                next[s] = *sig.entry(key).or_insert(k);
            }
            let k = sig.len();
            class = next;
            if k == nclasses {
                break; // refinement only ever splits classes: same count = stable partition
            }
            nclasses = k;
        }
        // renumber so that the initial state's class is 0, in BFS order
        let k = class.iter().max().map(|m| m + 1).unwrap_or(0);
        let mut rep = vec![usize::MAX; k];
        for s in 0..n {
            if rep[class[s]] == usize::MAX {
                rep[class[s]] = s;
            }
        }
        let mut order: Vec<usize> = Vec::new();
        let mut pos = vec![usize::MAX; k];
        let mut q = VecDeque::from([class[0]]);
        pos[class[0]] = 0;
        order.push(class[0]);
        while let Some(c) = q.pop_front() {
            for a in 0..self.nsym {
                let d = class[self.trans[rep[c]][a]];
                if pos[d] == usize::MAX {
                    pos[d] = order.len();
                    order.push(d);
                    q.push_back(d);
                }
            }
        }
        let trans = order.iter().map(|c| (0..self.nsym).map(|a| pos[class[self.trans[rep[*c]][a]]]).collect()).collect();
        let accept = order.iter().map(|c| self.accept[rep[*c]]).collect();
        Dfa { nsym: self.nsym, trans, accept }
    }

    /// shortest access word of every state (state cover)
    pub fn state_cover(&self) -> Vec<Vec<usize>> {
        let n = self.trans.len();
        let mut cover: Vec<Option<Vec<usize>>> = vec![None; n];
        cover[0] = Some(vec![]);
        let mut q = VecDeque::from([0usize]);
        while let Some(s) = q.pop_front() {
            for a in 0..self.nsym {
                let t = self.trans[s][a];
                if cover[t].is_none() {
                    let mut w = cover[s].clone().unwrap();
                    w.push(a);
                    cover[t] = Some(w);
                    q.push_back(t);
                }
            }
        }
        cover.into_iter().map(|c| c.unwrap_or_default()).collect()
    }

    /// a set of words that distinguishes every pair of states of a minimal DFA
    pub fn characterization_set(&self) -> Vec<Vec<usize>> {
        let n = self.trans.len();
        let mut w: Vec<Vec<usize>> = vec![vec![]];
        let differs = |w: &Vec<Vec<usize>>, s: usize, t: usize| -> bool {
            w.iter().any(|word| {
                let (mut x, mut y) = (s, t);
                for a in word {
                    x = self.trans[x][*a];
                    y = self.trans[y][*a];
                }
                self.accept[x] != self.accept[y]
            })
        };
        for s in 0..n {
            for t in s + 1..n {
                if differs(&w, s, t) {
                    continue;
                }
                // BFS over pairs for a shortest distinguishing word
                let mut seen: HashMap<(usize, usize), (usize, usize, usize)> = HashMap::new();
                let mut q = VecDeque::from([(s, t)]);
                let mut found: Option<(usize, usize)> = None;
                while let Some((x, y)) = q.pop_front() {
                    if self.accept[x] != self.accept[y] {
                        found = Some((x, y));
                        break;
                    }
                    for a in 0..self.nsym {
                        let p = (self.trans[x][a], self.trans[y][a]);
                        if p.0 != p.1 && p != (s, t) && !seen.contains_key(&p) {
                            seen.insert(p, (x, y, a));
                            q.push_back(p);
                        }
                    }
                }
                if let Some(mut cur) = found {
                    let mut word = Vec::new();
                    while cur != (s, t) {
                        let (px, py, a) = seen[&cur];
                        word.push(a);
                        cur = (px, py);
                    }
                    word.reverse();
                    w.push(word);
                }
            }
        }
        w.sort();
        w.dedup();
        w
    }

    /// the W-method test suite for `m` extra states
    pub fn wmethod_suite(&self, m: usize) -> Vec<Vec<usize>> {
        let cover = self.state_cover();
        let w = self.characterization_set();
        let mut prefixes: Vec<Vec<usize>> = cover.clone();
        for c in &cover {
            for a in 0..self.nsym {
                let mut p = c.clone();
                p.push(a);
                prefixes.push(p);
            }
        }
        prefixes.sort();
        prefixes.dedup();
        // Sigma^{<= m}
        let mut mids: Vec<Vec<usize>> = vec![vec![]];
        let mut frontier: Vec<Vec<usize>> = vec![vec![]];
        for _ in 0..m {
            let mut next = Vec::new();
            for f in &frontier {
                for a in 0..self.nsym {
                    let mut g = f.clone();
                    g.push(a);
                    next.push(g);
                }
            }
            mids.extend(next.iter().cloned());
            frontier = next;
        }
        let mut suite = Vec::with_capacity(prefixes.len() * mids.len() * w.len());
        for p in &prefixes {
            for mid in &mids {
                for suf in &w {
                    let mut t = p.clone();
                    t.extend_from_slice(mid);
                    t.extend_from_slice(suf);
                    suite.push(t);
                }
            }
        }
        suite.sort();
        suite.dedup();
        suite
    }
}

// ---------------------------------------------------------------------------
// Mealy machines (sequential string functions): f(w.a) = f(w) . out(state, a)
// ---------------------------------------------------------------------------

pub struct Mealy {
    pub nsym: usize,
    pub trans: Vec<Vec<usize>>,
    /// out[state][symbol] = what is appended to the result
    pub out: Vec<Vec<String>>,
}

impl Mealy {
    pub fn run(&self, word: &[usize]) -> String {
        let mut s = 0;
        let mut o = String::new();
        for a in word {
            o.push_str(&self.out[s][*a]);
            s = self.trans[s][*a];
        }
        o
    }

    fn outputs_from(&self, mut s: usize, word: &[usize]) -> Vec<&str> {
        let mut v = Vec::with_capacity(word.len());
        for a in word {
            v.push(self.out[s][*a].as_str());
            s = self.trans[s][*a];
        }
        v
    }

    pub fn state_cover(&self) -> Vec<Vec<usize>> {
        let n = self.trans.len();
        let mut cover: Vec<Option<Vec<usize>>> = vec![None; n];
        cover[0] = Some(vec![]);
        let mut q = VecDeque::from([0usize]);
        while let Some(s) = q.pop_front() {
            for a in 0..self.nsym {
                let t = self.trans[s][a];
                if cover[t].is_none() {
                    let mut w = cover[s].clone().unwrap();
                    w.push(a);
                    cover[t] = Some(w);
                    q.push_back(t);
                }
            }
        }
        cover.into_iter().map(|c| c.unwrap_or_default()).collect()
    }

    /// words whose output sequences tell every pair of (distinct, reachable) states apart;
    /// Err if two states are equivalent (the machine handed in is not minimal)
    pub fn characterization_set(&self) -> Result<Vec<Vec<usize>>, String> {
        let n = self.trans.len();
        let mut w: Vec<Vec<usize>> = Vec::new();
        for s in 0..n {
            for t in s + 1..n {
                if w.iter().any(|word| self.outputs_from(s, word) != self.outputs_from(t, word)) {
                    continue;
                }
                let mut seen: HashMap<(usize, usize), (usize, usize, usize)> = HashMap::new();
                let mut q = VecDeque::from([(s, t)]);
                let mut found: Option<Vec<usize>> = None;
                'bfs: while let Some((x, y)) = q.pop_front() {
                    for a in 0..self.nsym {
                        if self.out[x][a] != self.out[y][a] {
                            let mut word = vec![a];
                            let mut cur = (x, y);
                            while cur != (s, t) {
                                let (px, py, b) = seen[&cur];
                                word.push(b);
                                cur = (px, py);
                            }
                            word.reverse();
                            found = Some(word);
                            break 'bfs;
                        }
                        let p = (self.trans[x][a], self.trans[y][a]);
                        if p.0 != p.1 && p != (s, t) && !seen.contains_key(&p) {
                            seen.insert(p, (x, y, a));
                            q.push_back(p);
                        }
                    }
                }
                match found {
                    Some(word) => w.push(word),
                    None => return Err(format!("states {} and {} of the specification machine are equivalent", s, t)),
                }
            }
        }
        if w.is_empty() {
            w.push(vec![]);
        }
        w.sort();
        w.dedup();
        Ok(w)
    }

    /// prefix-closed W-method suite for `m` extra states
    pub fn wmethod_suite(&self, m: usize) -> Result<Vec<Vec<usize>>, String> {
        let cover = self.state_cover();
        let w = self.characterization_set()?;
        let mut prefixes: Vec<Vec<usize>> = cover.clone();
        for c in &cover {
            for a in 0..self.nsym {
                let mut p = c.clone();
                p.push(a);
                prefixes.push(p);
            }
        }
        prefixes.sort();
        prefixes.dedup();
        let mut mids: Vec<Vec<usize>> = vec![vec![]];
        let mut frontier: Vec<Vec<usize>> = vec![vec![]];
        for _ in 0..m {
            let mut next = Vec::new();
            for f in &frontier {
                for a in 0..self.nsym {
                    let mut g = f.clone();
                    g.push(a);
                    next.push(g);
                }
            }
            mids.extend(next.iter().cloned());
            frontier = next;
        }
        let mut set: std::collections::BTreeSet<Vec<usize>> = std::collections::BTreeSet::new();
        for p in &prefixes {
            for mid in &mids {
                for suf in &w {
                    let mut t = p.clone();
                    t.extend_from_slice(mid);
                    t.extend_from_slice(suf);
                    // prefix closure: the per-symbol outputs are observed as differences of
                    // the results on consecutive prefixes
                    for k in 0..=t.len() {
                        set.insert(t[..k].to_vec());
                    }
                }
            }
        }
        Ok(set.into_iter().collect())
    }
}
