//! C08 - enforced output has no universally forbidden code points and never drifts.

use crate::engine::*;
use crate::env::Env;
use crate::pipeline::show_out;
use crate::refmodel::derived_property;
use crate::subject::{enforce, from_cps, Out, Prof, DP};
use rayon::prelude::*;
use serde_json::json;

fn forbidden(env: &Env, p: Prof, c: char) -> Option<String> {
    let class = p.class();
    let i = env.dpt.get(class, c);
    let r = derived_property(&env.u63, c as u32, class);
    if matches!(i, DP::Disallowed | DP::Unassigned) || matches!(r, DP::Disallowed | DP::Unassigned) {
        Some(format!("U+{:04X}:{:?}(class)/{:?}(reference)", c as u32, i, r))
    } else {
        None
    }
}

pub fn check_input(env: &Env, p: Prof, s: &str, st: &mut Stats) {
    let got = enforce(p, s);
    st.evaluations += 1;
    let e = match got {
        Out::Ok(e) => e,
        Out::Err(_) => {
            st.count("out:rejected");
            return;
        }
        Out::Panic(pn) => {
            st.violation("panic", || Case::new("enforce").s(s).x(json!(p.name())), "Ok or typed error".into(), format!("PANIC({})", pn));
            return;
        }
    };
    st.traces += 1;
    if e != s {
        st.nontrivial += 1;
        st.count("out:accepted-changed");
    } else {
        st.count("out:accepted-unchanged");
    }
    let bad: Vec<(char, String)> = e.chars().filter_map(|c| forbidden(env, p, c).map(|d| (c, d))).collect();
    if !bad.is_empty() {
        // narrow known pattern: case-mapped usernames, every forbidden output code point is the
        // lowercase of a Cherokee letter U+13A0..U+13F4 of the input (unassigned in Unicode 6.3.0)
        let cherokee = p == Prof::Ucm
            && bad.iter().all(|(c, _)| {
                s.chars().any(|i| (0x13A0..=0x13F4).contains(&(i as u32)) && i.to_lowercase().eq(std::iter::once(*c)))
                    && env.dpt.get(p.class(), *c) == DP::Unassigned
            });
        st.violation(
            if cherokee { "cherokee_lowercase_unassigned" } else { "forbidden_output" },
            || Case::new("enforce").s(s).x(json!(p.name())),
            "no DISALLOWED / UNASSIGNED code point in the enforced string".into(),
            format!("{} contains {}", crate::subject::show(&e), bad.iter().map(|(_, d)| d.clone()).collect::<Vec<_>>().join(",")),
        );
    }
    // no drift
    let again = enforce(p, &e);
    st.evaluations += 1;
    st.traces += 1;
    match &again {
        Out::Ok(e2) if *e2 == e => {}
        Out::Err(_) => st.count("reenforce-rejects"),
        _ => st.violation(
            "drift",
            || Case::new("enforce").s(s).x(json!(p.name())),
            format!("enforce(e) is Ok(e) or an error, e={}", crate::subject::show(&e)),
            show_out(&again),
        ),
    }
}

/// full canonical decomposition from UnicodeData (recursive)
fn decompose(env: &Env, cp: u32, out: &mut Vec<u32>) {
    match env.ud16.get(cp) {
        Some(e) if e.dtag.is_empty() && !e.dmap.is_empty() && e.start == e.end => {
            for d in &e.dmap {
                decompose(env, *d, out);
            }
        }
        _ => out.push(cp),
    }
}

fn permutations(v: &[u32]) -> Vec<Vec<u32>> {
    if v.len() <= 1 {
        return vec![v.to_vec()];
    }
    let mut out = Vec::new();
    for i in 0..v.len() {
        let mut rest = v.to_vec();
        let x = rest.remove(i);
        for mut p in permutations(&rest) {
            p.insert(0, x);
            out.push(p);
        }
    }
    out
}

pub fn sigma08() -> Vec<char> {
    [
        0x61u32, 0x41, 0x130, 0x1C5, 0x13A0, 0x10400, 0x3A3, // cased
        0xFF21, 0xFF76, 0xFF9E, 0x3000, // width
        0xA8, 0xFDFA, 0x3131, 0x2163, 0xFB01, 0x2474, // compatibility (nickname NFKC)
        0x65, 0x301, 0x308, 0x212B, 0x344, // marks / singletons / U+0344 (decomposes to two marks)
        0x5D0, 0x20,
    ]
    .iter()
    .map(|c| char::from_u32(*c).unwrap())
    .collect()
}

pub fn run(env: &Env, run: &Run) -> (Stats, Coverage) {
    // (a) every scalar value between every prefix and suffix
    let pres: [&[u32]; 3] = [&[], &[0x61], &[0x5D0]];
    let posts: [&[u32]; 4] = [&[], &[0x308], &[0x301], &[0x61]];
    let mut st = cpsweep(|c, st| {
        for pre in pres {
            for post in posts {
                let mut l = pre.to_vec();
                l.push(c as u32);
                l.extend_from_slice(post);
                let s = from_cps(&l);
                for p in Prof::ALL {
                    check_input(env, p, &s, st);
                }
            }
        }
        // behind a character whose lowercase is a letter plus a mark (case mapping and
        // normalisation both touch the pair)
        {
            let s = from_cps(&[0x130, c as u32]);
            for p in Prof::ALL {
                check_input(env, p, &s, st);
            }
        }
        // history within one string: the code point next to each of its 16 other-plane aliases
        for a in alias_chars(c) {
            for l in [vec![c as u32, a as u32], vec![a as u32, c as u32]] {
                let s = from_cps(&l);
                for p in Prof::ALL {
                    check_input(env, p, &s, st);
                }
            }
        }
    });
    // (b) every canonical decomposition: full sequence, mark permutations, proper prefixes
    let decomposable: Vec<u32> = env
        .ud16
        .entries
        .iter()
        .filter(|e| e.start == e.end && e.dtag.is_empty() && !e.dmap.is_empty())
        .map(|e| e.start)
        .collect();
    let shards: Vec<Stats> = decomposable
        .par_iter()
        .map(|&cp| {
            let mut st = Stats::default();
            let mut full = Vec::new();
            decompose(env, cp, &mut full);
            let mut inputs: Vec<Vec<u32>> = vec![full.clone(), env.ud16.get(cp).unwrap().dmap.clone()];
            if full.len() >= 2 {
                let (base, marks) = full.split_at(1);
                if marks.len() <= 4 {
                    for p in permutations(marks) {
                        let mut v = base.to_vec();
                        v.extend(p);
                        inputs.push(v);
                    }
                }
                for k in 1..full.len() {
                    inputs.push(full[..k].to_vec());
                    let mut v = full[..k].to_vec();
                    v.push(full[k]);
                    inputs.push(v);
                }
            }
            // the same sequences behind a character that an earlier rule rewrites (upper case,
            // fullwidth, non-ASCII space): normalisation then works on a buffer that was already copied
            let base_inputs = inputs.clone();
            for pre in [0x41u32, 0xFF21, 0xA0, 0x130] {
                for l in &base_inputs {
                    let mut v = vec![pre];
                    v.extend_from_slice(l);
                    inputs.push(v);
                }
            }
            inputs.sort();
            inputs.dedup();
            for l in inputs {
                st.states += 1;
                st.transitions += 1;
                let s = from_cps(&l);
                for p in Prof::ALL {
                    check_input(env, p, &s, &mut st);
                }
                // and upper-cased / with a following cased letter, so case mapping and normalisation interact
                let up: String = s.chars().flat_map(|c| c.to_uppercase()).collect();
                if up != s {
                    for p in Prof::ALL {
                        check_input(env, p, &up, &mut st);
                    }
                }
            }
            st
        })
        .collect();
    for s in shards {
        st.merge(s);
    }
    // (c) tree over cased / width / compatibility symbols
    let sigma = crate::sig::rotated(env, sigma08(), run.seed);
    let n = run.tier.pick(4, 5);
    st.merge(strtree(&sigma, n, |_c, s, st| {
        for p in Prof::ALL {
            check_input(env, p, s, st);
        }
    }));

    // structural families: pumped runs a^k b / b a^k / a^k b a (k around 8, 16, 32, 64 and, for a
    // few symbols, 128..1025) every ASCII character at every offset of 7..33-byte
    // ASCII strings (two fillers), alphabet symbols alone and in pairs inside 16..41-byte ASCII strings,
    // all of them at every address residue modulo 8 / 16 (sub-slices of a larger buffer)
    st.merge(run_structural(&sigma, run.tier, |s, st| {
        for p in Prof::ALL {
            check_input(env, p, s, st);
        }
    }));
    for class in [crate::subject::Class::Identifier, crate::subject::Class::Freeform] {
        let stairs = crate::props::rules::block_staircases(env, class);
        st.merge(run_family(&stairs, |s, st| {
            for p in Prof::ALL {
                check_input(env, p, s, st);
            }
        }));
    }
    st.sample(json!({"profile": "UsernameCaseMapped", "input": ["U+13A0"], "expected": "output must not contain U+AB70 (UNASSIGNED in 6.3.0)"}));
    st.sample(json!({"profile": "Nickname", "input": ["U+3131"], "expected": "Err: NFKC gives U+1100 (DISALLOWED old Hangul jamo), caught by re-validation"}));
    st.sample(json!({"profile": "OpaqueString", "input": ["U+0041", "U+030A"], "expected": "Ok(U+00C5); enforcing U+00C5 again returns it unchanged"}));
    let cov = Coverage {
        rule: format!("(a) every scalar value between prefixes {{'', a, U+05D0}} and suffixes {{'', U+0308, U+0301, a}}, and behind U+0130, x 4 profiles; (b) each of the {} canonically decomposable characters of UnicodeData 16.0: its full decomposition, its direct decomposition, every permutation of its combining marks, every proper prefix (+ next mark), the upper-cased variants, and all of these behind A / fullwidth A / NBSP / I-dot; (c) every string of length <= {} over 24 cased/width/compatibility symbols, pumped runs, ASCII block strings, and every scalar value next to each of its 16 other-plane aliases; oracle on each accepted result e: every code point re-classified with the profile's own class AND the reference derived property is neither DISALLOWED nor UNASSIGNED, and enforce(e) is Ok(e) or an error; non-trivial = accepted inputs whose result differs from the input", decomposable.len(), n),
        alphabet: json!(sigma.iter().map(|c| format!("U+{:04X}", *c as u32)).collect::<Vec<_>>()),
        bound_completed: format!("sweep 1,112,064 x 12 contexts x 4 profiles; {} decomposable characters; tree length <= {}", decomposable.len(), n),
        exhaustive: false,
        assumptions: vec!["compatibility-decomposable characters are single code points and are therefore covered by (a)".into()],
        extra: json!({}),
    };
    (st, cov)
}

pub fn replay(env: &Env, case: &Case) -> Vec<Violation> {
    let mut st = Stats::default();
    if let Some(p) = case.extra.as_str().and_then(Prof::from_name) {
        check_input(env, p, &case.str_at(0), &mut st);
    }
    st.violations
}
