pub mod c01;
pub mod c02;
pub mod c03;
pub mod c04;
pub mod c05;
pub mod c06;
pub mod c07;
pub mod c08;
pub mod c09;
pub mod c10;
pub mod c11;
pub mod c12;
pub mod c13;
pub mod rules;
pub mod c14;
pub mod c15;
pub mod c16;
pub mod c16_sched;
pub mod c17;
pub mod c18;

use crate::engine::{finish, Case, Coverage, Run, Stats, Violation};
use crate::env::Env;

type RunFn = fn(&Env, &Run) -> (Stats, Coverage);
type ReplayFn = fn(&Env, &Case) -> Vec<Violation>;

fn table(prop: &str) -> Option<(RunFn, ReplayFn)> {
    Some(match prop {
        "C01" => (c01::run, c01::replay),
        "C02" => (c02::run, c02::replay),
        "C03" => (c03::run, c03::replay),
        "C04" => (c04::run, c04::replay),
        "C05" => (c05::run, c05::replay),
        "C06" => (c06::run, c06::replay),
        "C07" => (c07::run, c07::replay),
        "C08" => (c08::run, c08::replay),
        "C09" => (c09::run, c09::replay),
        "C10" => (c10::run, c10::replay),
        "C11" => (c11::run, c11::replay),
        "C12" => (c12::run, c12::replay),
        "C13" => (c13::run, c13::replay),
        "C14" => (c14::run, c14::replay),
        "C15" => (c15::run, c15::replay),
        "C16" => (c16::run, c16::replay),
        "C17" => (c17::run, c17::replay),
        "C18" => (c18::run, c18::replay),
        _ => return None,
    })
}

pub fn dispatch(env: &Env, run: &Run, replay_file: Option<&str>) -> i32 {
    let (runf, replayf) = match table(&run.prop) {
        Some(t) => t,
        None => {
            println!("MACHINERY-ERROR unknown property {}", run.prop);
            return 2;
        }
    };
    if let Some(path) = replay_file {
        let text = match std::fs::read_to_string(path) {
            Ok(t) => t,
            Err(e) => {
                println!("MACHINERY-ERROR cannot read {}: {}", path, e);
                return 2;
            }
        };
        let v: serde_json::Value = match serde_json::from_str(&text) {
            Ok(v) => v,
            Err(e) => {
                println!("MACHINERY-ERROR bad replay file: {}", e);
                return 2;
            }
        };
        let case = match v.get("case").and_then(Case::from_json) {
            Some(c) => c,
            None => {
                println!("MACHINERY-ERROR replay file has no case");
                return 2;
            }
        };
        let a = replayf(env, &case);
        let b = replayf(env, &case);
        let sig = |v: &Vec<Violation>| v.iter().map(|x| (x.kind.clone(), x.expected.clone(), x.actual.clone())).collect::<Vec<_>>();
        if sig(&a) != sig(&b) {
            println!("MACHINERY-ERROR replay is not deterministic");
            return 2;
        }
        let real: Vec<&Violation> = a.iter().filter(|x| run.is_known(&x.kind).is_none()).collect();
        for x in a.iter().filter(|x| run.is_known(&x.kind).is_some()) {
            println!("KNOWN-FINDING: property={} match={} expected {} got {}", run.prop, x.kind, x.expected, x.actual);
        }
        if real.is_empty() {
            println!("{}: replay of {} holds", run.prop, path);
            return 0;
        }
        for x in real {
            println!("  violation[{}] expected={} actual={}", x.kind, x.expected, x.actual);
        }
        println!("VIOLATION property={} replay={}", run.prop, path);
        return 1;
    }
    {
        // a library call that does not return within 10 s is a violation of the property under check
        let prop = run.prop.clone();
        crate::watch::start_monitor(std::time::Duration::from_secs(10), move |what, cps, secs| {
            let dir = crate::engine::out_dir().join("replays").join(&prop);
            let _ = std::fs::create_dir_all(&dir);
            let p = dir.join("stuck.json");
            let body = serde_json::json!({"property": prop, "kind": "does_not_return", "case": {"op": what, "strs": [cps], "nums": [], "extra": null},
                "expected": "the call returns", "actual": format!("still inside the library after {} s", secs)});
            let _ = std::fs::write(&p, serde_json::to_string_pretty(&body).unwrap());
            println!("  violation[does_not_return] {} {:?}: a library call has not returned after {} s", what, cps, secs);
            println!("VIOLATION property={} replay={}", prop, p.display());
            std::process::exit(1);
        });
    }
    let (mut st, cov) = runf(env, run);
    for n in &env.notes {
        st.note(n.clone());
    }
    finish(run, st, cov, |c| replayf(env, c))
}
