//! C18 - Codepoints entries compare consistently with code points.

use crate::engine::*;
use crate::env::Env;
use crate::subject::guard;
use precis_core::Codepoints;
use serde_json::json;
use std::cmp::Ordering;

fn mk(s: u32, e: u32, single: bool) -> Codepoints {
    if single {
        Codepoints::Single(s)
    } else {
        Codepoints::Range(std::ops::RangeInclusive::new(s, e))
    }
}

fn ord_ref(s: u32, e: u32, cp: u32) -> Ordering {
    if e < cp {
        Ordering::Less
    } else if s > cp {
        Ordering::Greater
    } else {
        Ordering::Equal
    }
}

pub fn check_entry(s: u32, e: u32, single: bool, cp: u32, st: &mut Stats) {
    let case = || Case::new("entry").n(s as u64).n(e as u64).n(single as u64).n(cp as u64);
    let r = guard(|| {
        let en = mk(s, e, single);
        (
            en.partial_cmp(&cp),
            en < cp,
            en <= cp,
            en > cp,
            en >= cp,
            en == cp,
            cp.partial_cmp(&en),
            cp < en,
            cp <= en,
            cp > en,
            cp >= en,
            (cp == en, en != cp, cp != en),
        )
    });
    st.evaluations += 14;
    st.traces += 14;
    let o = ord_ref(s, e, cp);
    let exp = (
        Some(o),
        o == Ordering::Less,
        o != Ordering::Greater,
        o == Ordering::Greater,
        o != Ordering::Less,
        o == Ordering::Equal,
        Some(o.reverse()),
        o.reverse() == Ordering::Less,
        o.reverse() != Ordering::Greater,
        o.reverse() == Ordering::Greater,
        o.reverse() != Ordering::Less,
        (o == Ordering::Equal, o != Ordering::Equal, o != Ordering::Equal),
    );
    match r {
        Err(p) => st.violation("panic", case, format!("{:?}", exp), format!("PANIC({})", p)),
        Ok(got) => {
            if got != exp {
                st.violation(
                    "operators",
                    case,
                    format!("(partial_cmp,<,<=,>,>=,==, the same mirrored, !=, mirrored !=) = {:?}", exp),
                    format!("{:?}", got),
                );
            }
        }
    }
    st.count(match o {
        Ordering::Less => "out:less",
        Ordering::Equal => "out:equal",
        Ordering::Greater => "out:greater",
    });
    if !single || s != cp {
        st.nontrivial += 1;
    }
}

/// Enumerate every strictly increasing, non-overlapping table over `n` slots
/// starting at `base`; entries are Single or Range(len>=2).
fn tables(n: usize, base: u32, pos: usize, cur: &mut Vec<(u32, u32, bool)>, f: &mut dyn FnMut(&[(u32, u32, bool)])) {
    if pos == n {
        f(cur);
        return;
    }
    // gap
    tables(n, base, pos + 1, cur, f);
    // single
    cur.push((base + pos as u32, base + pos as u32, true));
    tables(n, base, pos + 1, cur, f);
    cur.pop();
    // degenerate one-element range is a legal entry value too (start <= end)
    cur.push((base + pos as u32, base + pos as u32, false));
    tables(n, base, pos + 1, cur, f);
    cur.pop();
    for len in 2..=(n - pos) {
        cur.push((base + pos as u32, base + (pos + len - 1) as u32, false));
        tables(n, base, pos + len, cur, f);
        cur.pop();
    }
}

pub fn check_table(t: &[(u32, u32, bool)], probes: &[u32], st: &mut Stats) {
    let table: Vec<Codepoints> = t.iter().map(|(s, e, single)| mk(*s, *e, *single)).collect();
    for &cp in probes {
        let member = t.iter().any(|(s, e, _)| *s <= cp && cp <= *e);
        let r = guard(|| table.binary_search_by(|e| e.partial_cmp(&cp).unwrap()));
        st.evaluations += 1;
        st.traces += 1;
        let case = || {
            Case::new("table").n(cp as u64).x(json!(t
                .iter()
                .map(|(s, e, g)| json!([s, e, g]))
                .collect::<Vec<_>>()))
        };
        match r {
            Err(p) => st.violation("panic", case, "a search result".into(), format!("PANIC({})", p)),
            Ok(Ok(i)) => {
                let (s, e, _) = t[i];
                if !(s <= cp && cp <= e) {
                    st.violation("search", case, format!("member={}", member), format!("found entry {} = [{},{}]", i, s, e));
                }
                st.count("out:found");
            }
            Ok(Err(_)) => {
                if member {
                    st.violation("search", case, "found".into(), "not found".into());
                }
                st.count("out:absent");
            }
        }
    }
}

fn window(tier: Tier) -> (Vec<u32>, usize) {
    let w = tier.pick(12u32, 40u32);
    let mut v: Vec<u32> = (0..=w).collect();
    v.extend((u32::MAX - w)..=u32::MAX);
    // a few values around the Unicode boundary as well
    v.extend([0x10FFFE, 0x10FFFF, 0x110000, 0x7FFFFFFF, 0x80000000]);
    // every power of two with its neighbours (a comparison done in a narrower or a signed type
    // goes wrong where the value crosses that type's range)
    for k in 7..32u32 {
        let p = 1u32 << k;
        v.extend([p - 1, p, p + 1]);
    }
    v.sort_unstable();
    v.dedup();
    (v, tier.pick(10, 13))
}

pub fn run(_env: &Env, run: &Run) -> (Stats, Coverage) {
    let (v, slots) = window(run.tier);
    let mut st = Stats::default();
    let mut nentries = 0u64;
    for (i, &s) in v.iter().enumerate() {
        for &e in &v[i..] {
            for single in [true, false] {
                if single && s != e {
                    continue;
                }
                nentries += 1;
                for &cp in &v {
                    st.states += 1;
                    st.transitions += 1;
                    check_entry(s, e, single, cp, &mut st);
                }
            }
        }
    }
    let mut ntables = 0u64;
    for base in [0u32, 0x10FFF8, u32::MAX - (slots as u32 - 1)] {
        let mut probes: Vec<u32> = (0..slots as u32).map(|i| base + i).collect();
        probes.push(base.wrapping_sub(1));
        probes.push(base.wrapping_sub(2));
        probes.push((base + (slots as u32 - 1)).wrapping_add(1));
        probes.push((base + (slots as u32 - 1)).wrapping_add(2));
        let mut cur = Vec::new();
        let mut local = Stats::default();
        tables(slots, base, 0, &mut cur, &mut |t| {
            ntables += 1;
            local.states += 1;
            local.transitions += probes.len() as u64;
            check_table(t, &probes, &mut local);
        });
        st.merge(local);
    }
    st.sample(json!({"entry": "Range(3..=7)", "cp": 5, "expected": "Equal; <=,>= true; <,> false; mirrored reversed"}));
    st.sample(json!({"entry": format!("Single({})", u32::MAX), "cp": u32::MAX - 1, "expected": "Greater"}));
    st.sample(json!({"table": "[Single(0), Range(2..=4), Single(5)]", "probe": 3, "expected": "binary_search_by(partial_cmp) finds index 1"}));
    let cov = Coverage {
        rule: format!("state = (entry, code point): every Single(v) and Range(s..=e), s<=e, over the value window V x every cp in V x 14 operator forms (partial_cmp, <, <=, >, >=, ==, != in both directions), oracle = trichotomy by definition; plus every strictly increasing non-overlapping table over a {}-slot window at three bases x every probe in window+-2 through the library's own binary_search_by(partial_cmp().unwrap()); non-trivial = entry/cp pairs other than Single(v) vs v", slots),
        alphabet: json!({"V": format!("0..={} , u32::MAX-{}..=u32::MAX, 0x10FFFE,0x10FFFF,0x110000, 2^k-1, 2^k, 2^k+1 for k = 7..31", run.tier.pick(12, 40), run.tier.pick(12, 40)), "entries": nentries, "tables": ntables}),
        bound_completed: format!("|V|={} values, {} entries, {} tables of {} slots", v.len(), nentries, ntables, slots),
        exhaustive: true,
        assumptions: vec!["the window contains every relative position of cp to start/end and both extremes of u32; comparisons are pure functions of (start,end,cp)".into()],
        extra: json!({}),
    };
    (st, cov)
}

pub fn replay(_env: &Env, case: &Case) -> Vec<Violation> {
    let mut st = Stats::default();
    match case.op.as_str() {
        "entry" if case.nums.len() == 4 => check_entry(case.nums[0] as u32, case.nums[1] as u32, case.nums[2] != 0, case.nums[3] as u32, &mut st),
        "table" => {
            let t: Vec<(u32, u32, bool)> = case
                .extra
                .as_array()
                .map(|a| {
                    a.iter()
                        .filter_map(|x| {
                            let x = x.as_array()?;
                            Some((x[0].as_u64()? as u32, x[1].as_u64()? as u32, x[2].as_bool()?))
                        })
                        .collect()
                })
                .unwrap_or_default();
            if let Some(cp) = case.nums.first() {
                check_table(&t, &[*cp as u32], &mut st);
            }
        }
        _ => {}
    }
    st.violations
}
