//! C12 - space rules map, trim and collapse spaces without touching anything else.

use crate::engine::*;
use crate::env::Env;
use crate::props::rules::*;
use crate::refmodel::{is_zs, ref_space_nick, ref_space_opaque};
use crate::subject::{from_cps, Prof, RuleFn};
use serde_json::json;

pub fn sigma12() -> Vec<char> {
    chars_of(&[0x20, 0xA0, 0x2003, 0x3000, 0x61, 0xE9, 0x65E5, 0x10400])
}

fn visit(env: &Env, s: &str, st: &mut Stats) {
    let en = ref_space_nick(&env.ud16, s);
    check_rule_fn(Prof::Nick, RuleFn::Additional, s, &en, true, st);
    let eo = ref_space_opaque(&env.ud16, s);
    check_rule_fn(Prof::Opaque, RuleFn::Additional, s, &eo, true, st);
    // non-trivial: a space that needs action stands behind a multi-byte character
    let mut seen_multibyte = false;
    let mut nt = false;
    for c in s.chars() {
        if is_zs(&env.ud16, c) {
            if seen_multibyte {
                nt = true;
            }
        } else if c.len_utf8() > 1 {
            seen_multibyte = true;
        }
    }
    if nt && en != s {
        st.nontrivial += 1;
    }
}

pub fn run(env: &Env, run: &Run) -> (Stats, Coverage) {
    let sigma = crate::sig::rotated(env, sigma12(), run.seed);
    let n = run.tier.pick(7, 9);
    let mut st = strtree(&sigma, n, |_c, s, st| visit(env, s, st));
    // runs of LETTERS with every short tail behind them, and two words of every length pair up to
    // 40 between separators (the alphabet above starts with the spaces; here letters lead)
    {
        let letters_first: Vec<char> = ['a', 'b', ' ', '\u{a0}', '\u{e9}', '\u{3000}'].to_vec();
        st.merge(run_tails_and_two_runs(&letters_first, |s, st| visit(env, s, st)));
    }
    {
        let stairs = block_staircases(env, crate::subject::Class::Freeform);
        st.merge(run_family(&stairs, |s, st| visit(env, s, st)));
    }
    if run.tier == Tier::Thorough && !lite() {
        // a label of more than 4 GiB with the spaces behind offset 2^32
        let tail = "\u{a0}z\u{3000}\u{3000}y \u{2003}";
        check_rule_giga(Prof::Opaque, RuleFn::Additional, tail, |x| ref_space_opaque(&env.ud16, x), &mut st);
        check_rule_giga(Prof::Nick, RuleFn::Additional, tail, |x| ref_space_nick(&env.ud16, x), &mut st);
    }
    st.merge(cpsweep(|c, st| {
        let x = c as u32;
        for l in [vec![0x61, x, 0x62], vec![x], vec![0xE9, x, 0xE9], vec![0x20, x, 0x20], vec![0x61, 0x20, x], vec![x, 0x20, 0x61], vec![0x65E5, x, x, 0x10400]] {
            visit(env, &from_cps(&l), st);
        }
        for a in alias_chars(c) {
            visit(env, &from_cps(&[0x61, x, a as u32, 0x62]), st);
            // a space and its aliases (and the aliases of ASCII space) far apart in a long label
            if env.ud16.gc(x) == "Zs" || env.ud16.gc(a as u32) == "Zs" {
                for s in long_pair_strings(c, a) {
                    visit(env, &s, st);
                    visit(env, &format!("b{}b", s), st);
                }
            }
        }
    }));

    // structural families: pumped runs a^k b / b a^k / a^k b a (k around 8, 16, 32, 64 and, for a
    // few symbols, 128..1025) every ASCII character at every offset of 7..33-byte
    // ASCII strings (two fillers), alphabet symbols alone and in pairs inside 16..41-byte ASCII strings,
    // all of them at every address residue modulo 8 / 16 (sub-slices of a larger buffer)
    st.merge(run_structural(&sigma, run.tier, |s, st| visit(env, s, st)));
    st.merge(cpsweep_sequential(|c, st| {
        visit(env, &from_cps(&[0x61, c as u32, 0x62]), st);
    }));
    // conformance for every length: the Nickname space rule is a sequential (Mealy) function
    // f(w.a) = f(w).out(state, a) with three states; its complete W-method suite (prefix-closed,
    // so that per-character outputs are observed) is run with m extra states allowed
    let wm = {
        use crate::wmethod::Mealy;
        let syms: Vec<char> = sigma.clone();
        let is_sp: Vec<bool> = syms.iter().map(|c| is_zs(&env.ud16, *c)).collect();
        let k = syms.len();
        // states: 0 nothing emitted yet, 1 last emitted a non-space, 2 a space is pending
        let mut trans = vec![vec![0usize; k]; 3];
        let mut out = vec![vec![String::new(); k]; 3];
        for st_ in 0..3 {
            for a in 0..k {
                if is_sp[a] {
                    trans[st_][a] = if st_ == 0 { 0 } else { 2 };
                } else {
                    trans[st_][a] = 1;
                    out[st_][a] = if st_ == 2 { format!(" {}", syms[a]) } else { syms[a].to_string() };
                }
            }
        }
        let spec = Mealy { nsym: k, trans, out };
        let m = run.tier.pick(4, 6);
        match spec.wmethod_suite(m) {
            Err(e) => {
                st.caps_hit.push(format!("MACHINERY: {}", e));
                json!(null)
            }
            Ok(suite) => {
                let strs: Vec<String> = suite.iter().map(|w| w.iter().map(|a| syms[*a]).collect()).collect();
                let expected: Vec<String> = suite.iter().map(|w| spec.run(w)).collect();
                let idx: std::collections::HashMap<&str, usize> = strs.iter().enumerate().map(|(i, s)| (s.as_str(), i)).collect();
                st.merge(run_family(&strs, |s, st| {
                    let exp = &expected[idx[s]];
                    check_rule_fn(Prof::Nick, RuleFn::Additional, s, exp, false, st);
                }));
                json!({"specification": "3-state Mealy machine of the RFC 8266 space rule over the alphabet's space / non-space symbols", "states": 3, "extra_states_allowed": m, "tests": suite.len(),
                    "longest_test": suite.iter().map(|w| w.len()).max().unwrap_or(0),
                    "claim": format!("if all tests pass, Nickname's additional mapping equals the specification on strings of EVERY length over these symbols, provided it is a sequential function with at most {} states", 3 + m)})
            }
        }
    };
    let zs: Vec<String> = (0..0x110000u32).filter_map(char::from_u32).filter(|c| is_zs(&env.ud16, *c)).map(|c| format!("U+{:04X}", c as u32)).collect();
    st.sample(json!({"rule": "Nickname additional mapping", "input": ["U+00E9", " ", " ", "b", "U+3000"], "expected": "U+00E9 ' ' b"}));
    st.sample(json!({"rule": "OpaqueString additional mapping", "input": [" ", "U+00A0", "a", " "], "expected": "' ' ' ' a ' ' (only the non-ASCII space is replaced; nothing is trimmed)"}));
    let cov = Coverage {
        rule: format!("every string of length <= {} over {{U+0020, Zs of 2 and 3 bytes, letters of 1-4 bytes}} + pumped runs and ASCII block strings + every scalar value in 7 templates and next to each of its 16 other-plane aliases through additional_mapping_rule of Nickname and OpaqueString; oracle = map Zs (gc of the profile crate's UnicodeData) to U+0020, split on U+0020, drop empty tokens, join with one U+0020 (Nickname) / map non-ASCII Zs only (OpaqueString); idempotence on the output; non-trivial = a space needing action stands behind a multi-byte character", n),
        alphabet: json!(sigma.iter().map(|c| format!("U+{:04X}", *c as u32)).collect::<Vec<_>>()),
        bound_completed: format!("length <= {} ({} strings) x 2 rules; sweep 1,112,064 x 7 templates x 2", n, tree_size(sigma.len(), n)),
        exhaustive: false,
        assumptions: vec!["pinned UnicodeData 16.0.0 is authentic".into()],
        extra: json!({"zs_code_points": zs, "wmethod": wm}),
    };
    (st, cov)
}

pub fn replay(env: &Env, case: &Case) -> Vec<Violation> {
    let mut st = Stats::default();
    if case.op == "rulefn" {
        let s = case.str_at(0);
        match case.extra.get(0).and_then(|v| v.as_str()).and_then(Prof::from_name) {
            Some(Prof::Nick) => check_rule_fn(Prof::Nick, RuleFn::Additional, &s, &ref_space_nick(&env.ud16, &s), true, &mut st),
            Some(Prof::Opaque) => check_rule_fn(Prof::Opaque, RuleFn::Additional, &s, &ref_space_opaque(&env.ud16, &s), true, &mut st),
            _ => {}
        }
    }
    if case.op == "giga" {
        let tail = case.str_at(0).to_string();
        match case.extra.get(0).and_then(|v| v.as_str()).and_then(Prof::from_name) {
            Some(Prof::Nick) => check_rule_giga(Prof::Nick, RuleFn::Additional, &tail, |x| ref_space_nick(&env.ud16, x), &mut st),
            Some(Prof::Opaque) => check_rule_giga(Prof::Opaque, RuleFn::Additional, &tail, |x| ref_space_opaque(&env.ud16, x), &mut st),
            _ => {}
        }
    }
    st.violations
}
