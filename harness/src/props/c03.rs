//! C03 - context rules decide exactly what RFC 5892 Appendix A prescribes.

use crate::engine::*;
use crate::env::Env;
use crate::refmodel::{ctx_acceptable, ctx_expect, derived_property, CtxExpect};
use crate::subject::{ctx_rule, dp_cp, from_cps, registry, registry_call, Class, CtxOut, CtxRule, DP};
use crate::ucd::inset;
use serde_json::json;

pub const D: u32 = 0x0626;
pub const L: u32 = 0xA872;
pub const R: u32 = 0x0629;
pub const T: u32 = 0x05BF;
pub const VIRAMA: u32 = 0x094D;
pub const ZWNJ: u32 = 0x200C;
pub const ZWJ: u32 = 0x200D;

/// The alphabet members must really have the roles they stand for.
pub fn validate_alphabet(env: &Env) -> Result<(), String> {
    let u = &env.u63;
    let checks: [(&str, bool); 12] = [
        ("U+0626 is Joining_Type D", inset(&u.jt_d, D)),
        ("U+A872 is Joining_Type L", inset(&u.jt_l, L)),
        ("U+0629 is Joining_Type R", inset(&u.jt_r, R)),
        ("U+05BF is Joining_Type T", inset(&u.jt_t, T)),
        ("U+094D is a virama", u.virama(VIRAMA)),
        ("'a' is non-joining", !inset(&u.jt_d, 0x61) && !inset(&u.jt_t, 0x61) && !inset(&u.jt_l, 0x61) && !inset(&u.jt_r, 0x61)),
        ("U+3042 is Hiragana", inset(&u.hiragana, 0x3042)),
        ("U+30A2 is Katakana", inset(&u.katakana, 0x30A2)),
        ("U+6F22 is Han", inset(&u.han, 0x6F22)),
        ("U+05D0 is Hebrew", inset(&u.hebrew, 0x05D0)),
        ("U+03B1 is Greek", inset(&u.greek, 0x03B1)),
        ("U+30FB is not Hiragana/Katakana/Han", !inset(&u.hiragana, 0x30FB) && !inset(&u.katakana, 0x30FB) && !inset(&u.han, 0x30FB)),
    ];
    for (what, ok) in checks {
        if !ok {
            return Err(format!("alphabet self-check failed: {}", what));
        }
    }
    Ok(())
}

fn show_exp(e: CtxExpect) -> String {
    match e {
        CtxExpect::Outside => "Undefined (or NotApplicable): position outside the label".into(),
        CtxExpect::NotOwn => "NotApplicable: code point at position is not the rule's".into(),
        CtxExpect::True => "Ok(true)".into(),
        CtxExpect::FalseAtBoundary => "Ok(false) (or Undefined: a neighbour lies outside the label)".into(),
        CtxExpect::FalseInside => "Ok(false)".into(),
    }
}

/// One (rule, label, position) evaluation against the reference.
pub fn check_rule(env: &Env, rule: CtxRule, l: &[u32], s: &str, pos: usize, st: &mut Stats) -> CtxExpect {
    let got = ctx_rule(rule, s, pos);
    let exp = ctx_expect(&env.u63, rule, l, pos);
    st.evaluations += 1;
    st.traces += 1;
    if !ctx_acceptable(exp, &got) {
        let kind = if matches!(got, CtxOut::Panic(_)) { "panic" } else { "rule" };
        st.violation(
            kind,
            || Case::new("rule").cps(l).n(pos as u64).x(json!(rule.name())),
            show_exp(exp),
            format!("{:?}", got),
        );
    }
    exp
}

/// rules that own some code point of the label (the middle dot rule if none does)
pub fn rules_present(l: &[u32]) -> Vec<CtxRule> {
    let mut v: Vec<CtxRule> = CtxRule::ALL.iter().copied().filter(|r| l.iter().any(|c| r.owns(*c))).collect();
    if v.is_empty() {
        v.push(CtxRule::MiddleDot);
    }
    v
}

/// For every ordered pair (A, B) of distinct strings of equal byte length and all character
/// positions p <= q, `f(buf, A, p, B, q)` is called with one String buffer that lives for the
/// whole group: `f` writes A into it, makes its call at p, writes B into it (same allocation,
/// same length) and makes its call at q.
pub fn two_call_histories<F>(strings: &[String], f: F) -> Stats
where
    F: Fn(&mut String, &str, usize, &str, usize, &mut Stats) + Sync,
{
    use rayon::prelude::*;
    use std::collections::BTreeMap;
    let mut by_len: BTreeMap<usize, Vec<&String>> = BTreeMap::new();
    for s in strings {
        by_len.entry(s.len()).or_default().push(s);
    }
    let groups: Vec<Vec<&String>> = by_len.into_values().filter(|g| g.len() >= 2).collect();
    let shards: Vec<Stats> = groups
        .par_iter()
        .map(|g| {
            let mut st = Stats::default();
            let mut buf = String::with_capacity(64);
            for a in g.iter() {
                for b in g.iter() {
                    if a == b {
                        continue;
                    }
                    let (na, nb) = (a.chars().count(), b.chars().count());
                    for p in 0..na {
                        for q in p..nb {
                            st.states += 1;
                            st.transitions += 2;
                            f(&mut buf, a, p, b, q, &mut st);
                        }
                    }
                }
            }
            st
        })
        .collect();
    let mut total = Stats::default();
    for s in shards {
        total.merge(s);
    }
    total
}

/// Labels for two-call histories on LONG labels: a 72-byte prefix of one UTF-8 width (72 x 1,
/// 36 x 2, 24 x 3, 18 x 4 bytes), a core of one or two symbols, optionally an ASCII tail.
/// Returns (label, index of the first core character, number of core characters).
pub fn long_history_labels() -> Vec<(String, usize, usize)> {
    let hs4: Vec<char> = [0x6Cu32, 0xB7, 0xE9, ZWJ, VIRAMA, 0x65E5, 0x5D0, 0x5F3].iter().map(|c| char::from_u32(*c).unwrap()).collect();
    let cores: Vec<String> = all_strings(&hs4, 2);
    let prefixes: Vec<String> = [('a', 72usize), ('\u{E9}', 36), ('\u{65E5}', 24), ('\u{10400}', 18)].iter().map(|(c, n)| std::iter::repeat(*c).take(*n).collect()).collect();
    let mut long: Vec<(String, usize, usize)> = Vec::new();
    for p in &prefixes {
        for c in &cores {
            for tail in ["", "aaaaaaa"] {
                long.push((format!("{}{}{}", p, c, tail), p.chars().count(), c.chars().count()));
            }
        }
    }
    long
}

fn positions(len: usize) -> Vec<usize> {
    let mut p: Vec<usize> = (0..=len + 1).collect();
    p.push(usize::MAX - 1);
    p.push(usize::MAX);
    p
}

struct Template {
    rule: CtxRule,
    label: Vec<Option<u32>>,
    pos: usize,
}

fn templates() -> Vec<Template> {
    let x: Option<u32> = None;
    let s = |v: u32| Some(v);
    let t = |rule, label: Vec<Option<u32>>, pos| Template { rule, label, pos };
    vec![
        t(CtxRule::Zwnj, vec![x, s(ZWNJ)], 1),
        t(CtxRule::Zwnj, vec![x, s(ZWNJ), s(D)], 1),
        t(CtxRule::Zwnj, vec![s(D), s(ZWNJ), x], 1),
        t(CtxRule::Zwnj, vec![s(0x61), x, s(ZWNJ), s(D)], 2),
        t(CtxRule::Zwnj, vec![s(D), x, s(ZWNJ), s(D)], 2),
        t(CtxRule::Zwnj, vec![s(D), s(ZWNJ), x, s(D)], 1),
        t(CtxRule::Zwnj, vec![s(D), s(ZWNJ), x, s(0x61)], 1),
        t(CtxRule::Zwnj, vec![s(L), s(T), x, s(ZWNJ), s(T), s(R)], 3),
        t(CtxRule::Zwj, vec![x, s(ZWJ)], 1),
        t(CtxRule::Zwj, vec![s(VIRAMA), s(ZWJ), x], 1),
        t(CtxRule::MiddleDot, vec![x, s(0xB7), s(0x6C)], 1),
        t(CtxRule::MiddleDot, vec![s(0x6C), s(0xB7), x], 1),
        t(CtxRule::Keraia, vec![s(0x375), x], 0),
        t(CtxRule::Keraia, vec![x, s(0x375), s(0x61)], 1),
        t(CtxRule::HebrewPunct, vec![x, s(0x5F3)], 1),
        t(CtxRule::HebrewPunct, vec![x, s(0x5F4)], 1),
        t(CtxRule::HebrewPunct, vec![s(0x61), s(0x5F3), x], 1),
        t(CtxRule::KatakanaDot, vec![s(0x30FB), x], 0),
        t(CtxRule::KatakanaDot, vec![x, s(0x30FB)], 1),
        t(CtxRule::KatakanaDot, vec![s(0x61), s(0x30FB), s(0x61), x], 1),
        t(CtxRule::ArabicIndic, vec![s(0x660), x], 0),
        t(CtxRule::ArabicIndic, vec![x, s(0x669)], 1),
        t(CtxRule::ExtArabicIndic, vec![s(0x6F0), x], 0),
        t(CtxRule::ExtArabicIndic, vec![x, s(0x6F9)], 1),
        // the same unknown on BOTH sides of the rule's code point (a rule that compares or
        // case-folds its two neighbours sees something no one-sided template shows)
        t(CtxRule::Zwnj, vec![x, s(ZWNJ), x], 1),
        t(CtxRule::Zwj, vec![x, s(ZWJ), x], 1),
        t(CtxRule::MiddleDot, vec![x, s(0xB7), x], 1),
        t(CtxRule::Keraia, vec![x, s(0x375), x], 1),
        t(CtxRule::HebrewPunct, vec![x, s(0x5F3), x], 1),
        t(CtxRule::KatakanaDot, vec![x, s(0x30FB), x], 1),
        t(CtxRule::ArabicIndic, vec![x, s(0x660), x], 1),
        t(CtxRule::ExtArabicIndic, vec![x, s(0x6F0), x], 1),
    ]
}

fn fill(t: &Template, x: u32) -> Vec<u32> {
    t.label.iter().map(|o| o.unwrap_or(x)).collect()
}

/// Registry assertions for one 32-bit value.
pub fn check_registry(env: &Env, v: u32, st: &mut Stats) {
    let case = || Case::new("registry").n(v as u64);
    st.evaluations += 1;
    st.traces += 1;
    let reg = registry(v);
    let has = match &reg {
        Ok(o) => o.is_some(),
        Err(p) => {
            st.violation("panic", case, "Some/None".into(), format!("PANIC({})", p));
            return;
        }
    };
    let ref_ctx = v <= 0x10FFFF && derived_property(&env.u63, v, Class::Identifier).is_contextual();
    let impl_ctx = matches!(dp_cp(Class::Identifier, v), Ok(DP::ContextJ) | Ok(DP::ContextO))
        || matches!(dp_cp(Class::Freeform, v), Ok(DP::ContextJ) | Ok(DP::ContextO));
    if has != ref_ctx {
        st.violation(
            "registry",
            case,
            format!("registered rule iff derived property is CONTEXTJ/CONTEXTO (reference says contextual={})", ref_ctx),
            format!("get_context_rule(..).is_some()={}", has),
        );
    }
    if has != impl_ctx {
        st.violation(
            "registry_vs_classes",
            case,
            format!("registered rule iff the string classes call it contextual ({})", impl_ctx),
            format!("get_context_rule(..).is_some()={}", has),
        );
    }
    if has {
        st.nontrivial += 1;
        st.count("out:registered");
        if let Some(ch) = char::from_u32(v) {
            let s = ch.to_string();
            let got = registry_call(v, &s, 0);
            st.evaluations += 1;
            st.traces += 1;
            match got {
                Some(CtxOut::NotApplicable) | Some(CtxOut::Panic(_)) | None => st.violation(
                    "registry_applies",
                    case,
                    "the registered rule applies to its code point (not NotApplicable)".into(),
                    format!("{:?}", got),
                ),
                _ => {}
            }
            // and it must be the rule of that code point: same answers as the public rule
            if let Some(owner) = CtxRule::owner_of(v) {
                for (lab, pos) in [(vec![v], 0usize), (vec![0x6C, v, 0x6C], 1), (vec![VIRAMA, v], 1), (vec![0x5D0, v, 0x3B1], 1), (vec![0x3042, v, 0x6F0], 1), (vec![0x3042, v, 0x660], 1)] {
                    let s = from_cps(&lab);
                    let a = registry_call(v, &s, pos);
                    let b = ctx_rule(owner, &s, pos);
                    st.evaluations += 2;
                    st.traces += 1;
                    if a.as_ref() != Some(&b) {
                        st.violation(
                            "registry_wrong_rule",
                            || Case::new("registry").n(v as u64).cps(&lab).n(pos as u64),
                            format!("{} -> {:?}", owner.name(), b),
                            format!("{:?}", a),
                        );
                    }
                }
            }
        }
    } else {
        st.count("out:unregistered");
    }
}

pub fn run(env: &Env, run: &Run) -> (Stats, Coverage) {
    let mut st = Stats::default();
    if let Err(e) = validate_alphabet(env) {
        st.note(format!("MACHINERY: {}", e));
        st.caps_hit.push(format!("alphabet invalid: {}", e));
    }
    // (a) every scalar value in every inspected role
    let tpls = templates();
    st.merge(cpsweep(|c, st| {
        let x = c as u32;
        for t in &tpls {
            let l = fill(t, x);
            let s = from_cps(&l);
            let e = check_rule(env, t.rule, &l, &s, t.pos, st);
            st.count(match e {
                CtxExpect::True => "out:true",
                CtxExpect::FalseInside => "out:false",
                CtxExpect::FalseAtBoundary => "out:false-at-boundary",
                CtxExpect::NotOwn => "out:not-own",
                CtxExpect::Outside => "out:outside",
            });
            if e == CtxExpect::True {
                st.nontrivial += 1;
            }
        }
        // neighbours in code-point order inside the transparent runs of the ZWNJ rule (a scan that
        // remembers the table entry it matched last and probes next to it), and the same code
        // point in the other planes behind it (the last entry of a table, then something above it)
        let pred = (0..x).rev().find_map(char::from_u32).map(|p| p as u32);
        let succ = (x + 1..=0x10FFFF).find_map(char::from_u32).map(|p| p as u32);
        for n in [pred, succ].into_iter().flatten() {
            for (l, pos) in [(vec![D, x, n, ZWNJ, D], 3usize), (vec![D, n, x, ZWNJ, D], 3), (vec![D, ZWNJ, n, x, D], 1), (vec![D, ZWNJ, x, n, D], 1)] {
                let s = from_cps(&l);
                check_rule(env, CtxRule::Zwnj, &l, &s, pos, st);
            }
        }
        for a in alias_chars(c) {
            for (l, pos) in [(vec![D, ZWNJ, x, a as u32], 1usize), (vec![D, ZWNJ, x, a as u32, D], 1), (vec![a as u32, x, ZWNJ, D], 2)] {
                let s = from_cps(&l);
                check_rule(env, CtxRule::Zwnj, &l, &s, pos, st);
            }
        }
        // [X],0: NotApplicable exactly for X not the rule's own
        let l = [x];
        let s = c.to_string();
        for r in CtxRule::ALL {
            check_rule(env, r, &l, &s, 0, st);
        }
    }));
    // (a') every ordered pair (a, b) of ASCII / Latin-1 characters around each rule's code point
    {
        let owners: [(CtxRule, u32); 9] = [
            (CtxRule::Zwnj, ZWNJ),
            (CtxRule::Zwj, ZWJ),
            (CtxRule::MiddleDot, 0xB7),
            (CtxRule::Keraia, 0x375),
            (CtxRule::HebrewPunct, 0x5F3),
            (CtxRule::HebrewPunct, 0x5F4),
            (CtxRule::KatakanaDot, 0x30FB),
            (CtxRule::ArabicIndic, 0x660),
            (CtxRule::ExtArabicIndic, 0x6F0),
        ];
        let mut labels: Vec<String> = Vec::new();
        for (_, cp) in owners {
            for a in 0u32..256 {
                for b in 0u32..256 {
                    labels.push(from_cps(&[a, cp, b]));
                }
            }
        }
        st.merge(run_family(&labels, |s, st| {
            let l: Vec<u32> = s.chars().map(|c| c as u32).collect();
            if let Some(r) = CtxRule::owner_of(l[1]) {
                check_rule(env, r, &l, s, 1, st);
            }
        }));
    }
    // (b1) joining-type tree: ZWNJ/ZWJ rules at every position; all rules up to length 4
    let a1: Vec<char> = [D, L, R, T, 0x61, VIRAMA, ZWNJ, ZWJ].iter().map(|c| char::from_u32(*c).unwrap()).collect();
    let n1 = run.tier.pick(7, 9);
    st.merge(strtree(&a1, n1, |chars, s, st| {
        let l: Vec<u32> = chars.iter().map(|c| *c as u32).collect();
        let rules: &[CtxRule] = if l.len() <= 4 { &CtxRule::ALL } else { &[CtxRule::Zwnj, CtxRule::Zwj] };
        let mut interesting = false;
        for pos in positions(l.len()) {
            for &r in rules {
                let e = check_rule(env, r, &l, s, pos, st);
                if e == CtxExpect::True {
                    interesting = true;
                }
            }
        }
        if interesting {
            st.nontrivial += 1;
        }
    }));
    // (b2) script / digit / punctuation tree: all rules at every position
    // 0x644 / 0x6CC: letters that share their UTF-8 lead byte with the two digit families (a scan
    // done on bytes sees D9 / DB and has to look further)
    let a2: Vec<char> = [0x30FBu32, 0x3042, 0x30A2, 0x6F22, 0x61, 0x660, 0x6F0, 0x5F3, 0x5F4, 0x5D0, 0x375, 0x3B1, 0xB7, 0x6C, 0x644, 0x6CC]
        .iter()
        .map(|c| char::from_u32(*c).unwrap())
        .collect();
    let n2 = run.tier.pick(5, 6);
    st.merge(strtree(&a2, n2, |chars, s, st| {
        let l: Vec<u32> = chars.iter().map(|c| *c as u32).collect();
        let mut interesting = false;
        for pos in positions(l.len()) {
            for r in CtxRule::ALL {
                let e = check_rule(env, r, &l, s, pos, st);
                if e == CtxExpect::True {
                    interesting = true;
                }
            }
        }
        if interesting {
            st.nontrivial += 1;
        }
    }));
    // (b3) same-buffer histories: label A then label B of the same byte length in the same
    // allocation, every rule at every position on both
    {
        let hs: Vec<char> = [0x61u32, 0x6C, 0xB7, 0xE9, ZWJ, ZWNJ, VIRAMA, D, 0x660, 0x6F0, 0x5D0, 0x5F3].iter().map(|c| char::from_u32(*c).unwrap()).collect();
        let strs = all_strings(&hs, run.tier.pick(3, 4));
        st.merge(same_buffer_pairs(&strs, |s, st| {
            let l: Vec<u32> = s.chars().map(|c| c as u32).collect();
            for pos in 0..l.len() {
                for r in CtxRule::ALL {
                    check_rule(env, r, &l, s, pos, st);
                }
            }
        }));
    }
    // (b3') the same histories where the call on label A does not return normally: a user-defined
    // string class whose classifier panics at the last character of A (after the characters before
    // it went through their context rules); the panic is caught, B is written into the same
    // allocation, and every rule at every position of B must answer as if nothing had happened
    {
        struct Panicky {
            at: char,
        }
        impl precis_core::StringClass for Panicky {
            fn get_value_from_char(&self, c: char) -> precis_core::DerivedPropertyValue {
                if c == self.at {
                    panic!("classifier failed");
                }
                precis_core::FreeformClass::default().get_value_from_char(c)
            }
            fn get_value_from_codepoint(&self, cp: u32) -> precis_core::DerivedPropertyValue {
                precis_core::FreeformClass::default().get_value_from_codepoint(cp)
            }
        }
        let hs: Vec<char> = [0x6Cu32, 0xB7, 0xE9, ZWJ, VIRAMA, 0x30FB, 0x30A2, 0x21].iter().map(|c| char::from_u32(*c).unwrap()).collect();
        let strs = all_strings(&hs, run.tier.pick(3, 4));
        let mut by_len: std::collections::BTreeMap<usize, Vec<&String>> = std::collections::BTreeMap::new();
        for x in &strs {
            by_len.entry(x.len()).or_default().push(x);
        }
        let groups: Vec<Vec<&String>> = by_len.into_values().filter(|g| g.len() >= 2).collect();
        let shards: Vec<Stats> = {
            use rayon::prelude::*;
            groups
                .par_iter()
                .map(|g| {
                    let mut st = Stats::default();
                    let mut buf = String::with_capacity(64);
                    for a in g.iter() {
                        let last = match a.chars().last() {
                            Some(c) => c,
                            None => continue,
                        };
                        // only histories in which something ran before the panic
                        if a.chars().count() < 2 || a.chars().rev().skip(1).any(|c| c == last) {
                            continue;
                        }
                        for b in g.iter() {
                            if a == b {
                                continue;
                            }
                            st.states += 1;
                            st.transitions += 2;
                            buf.clear();
                            buf.push_str(a);
                            let _ = crate::subject::guard(|| {
                                use precis_core::StringClass;
                                Panicky { at: last }.allows(buf.as_str()).is_ok()
                            });
                            buf.clear();
                            buf.push_str(b);
                            let l: Vec<u32> = b.chars().map(|c| c as u32).collect();
                            for pos in 0..l.len() {
                                for r in CtxRule::ALL {
                                    check_rule(env, r, &l, &buf, pos, &mut st);
                                }
                            }
                        }
                    }
                    st.count("out:after-unwinding-call");
                    st
                })
                .collect()
        };
        for x in shards {
            st.merge(x);
        }
    }
    // (b4) two-call histories: one rule call on label A at position p, then one rule call on a
    // different label B of the same byte length in the same allocation at a position q >= p
    {
        let hs4: Vec<char> = [0x6Cu32, 0xB7, 0xE9, ZWJ, VIRAMA, 0x65E5].iter().map(|c| char::from_u32(*c).unwrap()).collect();
        let strs: Vec<String> = all_strings(&hs4, run.tier.pick(3, 4));
        st.merge(two_call_histories(&strs, |buf, a, p, b, q, st| {
            let la: Vec<u32> = a.chars().map(|c| c as u32).collect();
            let lb: Vec<u32> = b.chars().map(|c| c as u32).collect();
            for ra in rules_present(&la) {
                for rb in rules_present(&lb) {
                    buf.clear();
                    buf.push_str(a);
                    check_rule(env, ra, &la, buf, p, st);
                    buf.clear();
                    buf.push_str(b);
                    check_rule(env, rb, &lb, buf, q, st);
                }
            }
        }));
    }
    // (b4') the same two-call histories on LONG labels: a 72-byte prefix of one UTF-8 width (72 x 1,
    // 36 x 2, 24 x 3, 18 x 4 bytes), a short core, optionally an ASCII tail - label A at a position
    // inside its core, then label B (another prefix width and another core of the same byte length)
    // in the same allocation at a position inside its core. A position cursor remembered between
    // calls (keyed by address and length, used only for labels long enough to be worth it) is
    // stale in characters or in bytes for one of the two orders of every pair of widths.
    {
        let long = long_history_labels();
        let mut by_len: std::collections::BTreeMap<usize, Vec<&(String, usize, usize)>> = std::collections::BTreeMap::new();
        for x in &long {
            by_len.entry(x.0.len()).or_default().push(x);
        }
        let groups: Vec<Vec<&(String, usize, usize)>> = by_len.into_values().filter(|g| g.len() >= 2).collect();
        let shards: Vec<Stats> = {
            use rayon::prelude::*;
            groups
                .par_iter()
                .map(|g| {
                    let mut st = Stats::default();
                    let mut buf = String::with_capacity(128);
                    for a in g.iter() {
                        let la: Vec<u32> = a.0.chars().map(|c| c as u32).collect();
                        let ras = rules_present(&la);
                        if ras.is_empty() {
                            continue;
                        }
                        for b in g.iter() {
                            if a.0 == b.0 {
                                continue;
                            }
                            let lb: Vec<u32> = b.0.chars().map(|c| c as u32).collect();
                            // the first call may also be `allows` of a standard class (it runs the
                            // rules of A itself and may leave a cursor behind), then a direct rule call
                            for rb in rules_present(&lb) {
                                for q in b.1..b.1 + b.2 {
                                    for class in 0..2 {
                                        st.states += 1;
                                        st.transitions += 2;
                                        buf.clear();
                                        buf.push_str(&a.0);
                                        let _ = crate::subject::guard(|| {
                                            use precis_core::StringClass;
                                            if class == 0 {
                                                precis_core::IdentifierClass::default().allows(buf.as_str()).is_ok()
                                            } else {
                                                precis_core::FreeformClass::default().allows(buf.as_str()).is_ok()
                                            }
                                        });
                                        buf.clear();
                                        buf.push_str(&b.0);
                                        check_rule(env, rb, &lb, &buf, q, &mut st);
                                    }
                                }
                            }
                            for &ra in &ras {
                                for rb in rules_present(&lb) {
                                    for p in a.1..a.1 + a.2 {
                                        for q in b.1..b.1 + b.2 {
                                            st.states += 1;
                                            st.transitions += 2;
                                            buf.clear();
                                            buf.push_str(&a.0);
                                            check_rule(env, ra, &la, &buf, p, &mut st);
                                            buf.clear();
                                            buf.push_str(&b.0);
                                            check_rule(env, rb, &lb, &buf, q, &mut st);
                                        }
                                    }
                                }
                            }
                        }
                    }
                    st.count("out:long-two-call-histories");
                    st
                })
                .collect()
        };
        for x in shards {
            st.merge(x);
        }
    }
    // (b4'') the whole-label rules (the two digit rules, katakana middle dot) on labels of a little
    // over 64 KiB and 128 KiB: the rule's own code point at one end, the code point that decides
    // the answer at the other, the padding length such that the far character starts at every
    // byte phase -5..+5 around a multiple of 2^16 (scans done block by block, offsets kept in 16 bits)
    {
        let cases: [(CtxRule, u32, u32); 4] = [(CtxRule::ArabicIndic, 0x660, 0x6F0), (CtxRule::ExtArabicIndic, 0x6F0, 0x660), (CtxRule::KatakanaDot, 0x30FB, 0x30A2), (CtxRule::ArabicIndic, 0x660, 0x661)];
        let mut labels: Vec<(CtxRule, Vec<u32>, usize)> = Vec::new();
        for (rule, own, other) in cases {
            let own_len = char::from_u32(own).unwrap().len_utf8();
            for base in [1usize << 16, 1 << 17] {
                for d in 0..=10usize {
                    let target = base + d - 5; // byte index at which `other` starts (own first)
                    let pad = target - own_len;
                    let mut l = vec![own];
                    l.extend(std::iter::repeat(0x61).take(pad));
                    l.push(other);
                    labels.push((rule, l, 0));
                    // the other order: `other` first, padding, own code point starting at `target`
                    let other_len = char::from_u32(other).unwrap().len_utf8();
                    let mut l2 = vec![other];
                    l2.extend(std::iter::repeat(0x61).take(target - other_len));
                    l2.push(own);
                    let pos = l2.len() - 1;
                    labels.push((rule, l2, pos));
                }
            }
        }
        use rayon::prelude::*;
        let shards: Vec<Stats> = labels
            .par_iter()
            .map(|(rule, l, pos)| {
                let mut st = Stats::default();
                let s = from_cps(l);
                st.states += 1;
                st.transitions += 1;
                crate::watch::with_allowance(60, || {
                    check_rule(env, *rule, l, &s, *pos, &mut st);
                });
                st.count("out:64KiB-label");
                st
            })
            .collect();
        for x in shards {
            st.merge(x);
        }
    }
    // (b5) long runs of transparent characters on both sides of ZWNJ
    {
        let ends: [u32; 6] = [D, L, R, 0x61, VIRAMA, T];
        let ks: [usize; 13] = [0, 1, 2, 3, 7, 8, 9, 31, 32, 33, 63, 64, 65];
        let mut labels: Vec<(Vec<u32>, usize)> = Vec::new();
        for &x in &ends {
            for &y in &ends {
                for &k in &ks {
                    for &j in &ks {
                        let mut l = vec![x];
                        l.extend(std::iter::repeat(T).take(k));
                        let pos = l.len();
                        l.push(ZWNJ);
                        l.extend(std::iter::repeat(T).take(j));
                        l.push(y);
                        labels.push((l, pos));
                    }
                }
            }
        }
        let strs: Vec<String> = labels.iter().map(|(l, _)| from_cps(l)).collect();
        let idx: std::collections::HashMap<&str, usize> = strs.iter().enumerate().map(|(i, s)| (s.as_str(), i)).collect();
        st.merge(run_family(&strs, |s, st| {
            let (l, pos) = &labels[idx[s]];
            for p in [*pos, 0, pos.saturating_sub(1), pos + 1, l.len() - 1] {
                check_rule(env, CtxRule::Zwnj, l, s, p, st);
            }
            check_rule(env, CtxRule::Zwj, l, s, *pos, st);
        }));
    }
    // (b7) rule symbols inside long ASCII labels, at every address residue: one or two of the
    // characters the rules look for (at every offset, every small gap) in 16..41-byte labels
    // presented as sub-slices of a larger buffer - whole-label scans that skip ASCII a word at a
    // time split the label into an unaligned head, a body and a tail that depend on the address
    {
        let sym: Vec<char> = [0x30FBu32, 0x30A2, 0x3042, 0x65E5, 0x661, 0x6F1, 0xB7, 0x6C, 0x375, 0x3B1, 0x5F3, 0x5D0, ZWNJ, ZWJ, VIRAMA, D]
            .iter()
            .map(|c| char::from_u32(*c).unwrap())
            .collect();
        let fam = sparse_blocks(&sym, run.tier);
        st.merge(run_family_placed(&fam, &placements(run.tier), |s, st| {
            let l: Vec<u32> = s.chars().map(|c| c as u32).collect();
            let mut ps: Vec<usize> = l.iter().enumerate().filter(|(_, c)| **c != 0x61).map(|(i, _)| i).collect();
            ps.push(0);
            ps.push(l.len() - 1);
            ps.dedup();
            for pos in ps {
                for r in CtxRule::ALL {
                    check_rule(env, r, &l, s, pos, st);
                }
            }
        }));
    }
    // (b6) the two scans of the ZWNJ rule as finite automata, tested for every length (W-method):
    // left context read towards the start with the right side fixed to a dual-joining letter,
    // and right context read towards the end with the left side fixed likewise
    let wm = {
        use crate::wmethod::explore;
        // symbols: 0 D, 1 L, 2 R, 3 T (non-virama), 4 U (non-joining), 5 V (virama, itself transparent)
        let sym_cp: [u32; 6] = [D, L, R, T, 0x61, VIRAMA];
        // backward scan, characters in the order they are inspected (nearest first)
        // states: 0 start, 1 scanning a transparent run, 2 satisfied, 3 failed
        let back = explore(
            0u8,
            6,
            |s, a| match (*s, a) {
                (0, 5) => 2,              // virama immediately before: true whatever follows
                (0, 3) | (1, 3) | (1, 5) => 1, // transparent (a virama deeper in the run is just transparent)
                (0, 0) | (0, 1) | (1, 0) | (1, 1) => 2,
                (0, _) | (1, _) => 3,
                (x, _) => x,
            },
            |s| *s == 2,
        )
        .0
        .minimize();
        // forward scan: states 0 scanning, 1 satisfied, 2 failed
        let fwd = explore(
            0u8,
            6,
            |s, a| match (*s, a) {
                (0, 3) | (0, 5) => 0,
                (0, 0) | (0, 2) => 1,
                (0, _) => 2,
                (x, _) => x,
            },
            |s| *s == 1,
        )
        .0
        .minimize();
        let m = run.tier.pick(3, 5);
        let mut tests = 0usize;
        for (side, dfa) in [("left", &back), ("right", &fwd)] {
            let suite = dfa.wmethod_suite(m);
            tests += suite.len();
            let labels: Vec<(Vec<u32>, usize)> = suite
                .iter()
                .map(|w| {
                    let ctx: Vec<u32> = w.iter().map(|a| sym_cp[*a]).collect();
                    if side == "left" {
                        // word lists characters nearest-first: reverse it to build the label
                        let mut l: Vec<u32> = ctx.iter().rev().copied().collect();
                        let pos = l.len();
                        l.push(ZWNJ);
                        l.push(D);
                        (l, pos)
                    } else {
                        let mut l = vec![D, ZWNJ];
                        l.extend(ctx);
                        (l, 1)
                    }
                })
                .collect();
            let strs: Vec<String> = labels.iter().map(|(l, _)| from_cps(l)).collect();
            let words: Vec<&Vec<usize>> = suite.iter().collect();
            let idx: std::collections::HashMap<&str, usize> = strs.iter().enumerate().map(|(i, s)| (s.as_str(), i)).collect();
            st.merge(run_family(&strs, |s, st| {
                let i = idx[s];
                let (l, pos) = &labels[i];
                let e = check_rule(env, CtxRule::Zwnj, l, s, *pos, st);
                // the automaton and the declarative reference must agree as well
                if (e == CtxExpect::True) != dfa.run(words[i]) {
                    st.caps_hit.push(format!("MACHINERY: ZWNJ {} automaton disagrees with the declarative reference on {:?}", side, l));
                }
            }));
        }
        json!({"automata": {"left_context_states": back.trans.len(), "right_context_states": fwd.trans.len()}, "extra_states_allowed": m, "tests": tests,
            "claim": "if all tests pass, the backward and the forward scan of the ZWNJ rule agree with RFC 5892 A.1 for contexts of EVERY length over {D,L,R,T,non-joining,virama}, provided each scan has at most (states + extra) states"})
    };
    // (c) registry over u32
    let exhaustive_u32 = run.tier == Tier::Thorough;
    if exhaustive_u32 {
        st.merge(u32sweep(&[(0, u32::MAX)], |v, st| check_registry(env, v, st)));
    } else {
        st.merge(u32sweep(&[(0, 0x1FFFFF)], |v, st| check_registry(env, v, st)));
        let mut s2 = Stats::default();
        for v in u32_lattice().into_iter().filter(|v| *v > 0x1FFFFF) {
            s2.states += 1;
            s2.transitions += 1;
            check_registry(env, v, &mut s2);
        }
        st.merge(s2);
    }
    st.sample(json!({"rule": "rule_zero_width_nonjoiner", "label": ["U+0626", "U+05BF", "U+200C", "U+05BF", "U+0629"], "position": 2, "expected": "Ok(true): D T* ZWNJ T* R"}));
    st.sample(json!({"rule": "rule_middle_dot", "label": ["l", "U+00B7"], "position": 1, "expected": "Ok(false) or Undefined (After lies outside the label)"}));
    st.sample(json!({"rule": "rule_katakana_middle_dot", "label": ["U+30FB", "X"], "position": 0, "expected": "Ok(true) iff Script(X) in {Hiragana,Katakana,Han} per Scripts-6.3.0, for every scalar X"}));
    let cov = Coverage {
        rule: format!("(a) every scalar value X substituted into {} role templates (1-deviation from a fixed label) + each of the 8 rule functions on [X],0; (b) every label of length <= {} over {{D,L,R,T,a,virama,ZWNJ,ZWJ}} and of length <= {} over the 14 script/digit/punctuation symbols, every rule at every position in 0..=len+1, usize::MAX-1, usize::MAX; (b3) every ordered pair of equal-byte-length labels of length <= 3/4 over 12 symbols presented one after the other in the same allocation; (b4) two-call histories: a rule call on label A at position p followed by a rule call on a different label B of equal byte length in the same allocation at q >= p, all pairs of labels of length <= 3/4 over 6 symbols; (b5) runs of 0..65 transparent characters on both sides of ZWNJ between every pair of end classes; (b6) complete W-method suites of the backward and forward scan automata of the ZWNJ rule; (c) registry on u32; oracle = RFC 5892 App. A conditions over the pinned 6.3.0 Scripts/DerivedJoiningType/UnicodeData(ccc=9), with Undefined tolerated only where a named neighbour lies outside the label; non-trivial = cases where the RFC condition is true", tpls.len(), n1, n2),
        alphabet: json!({"joining": ["U+0626 D", "U+A872 L", "U+0629 R", "U+05BF T", "a", "U+094D virama", "U+200C", "U+200D"],
            "scripts": ["U+30FB", "U+3042", "U+30A2", "U+6F22", "a", "U+0660", "U+06F0", "U+05F3", "U+05F4", "U+05D0", "U+0375", "U+03B1", "U+00B7", "l"],
            "templates": tpls.iter().map(|t| json!({"rule": t.rule.name(), "label": t.label.iter().map(|o| o.map(|v| format!("U+{:04X}", v)).unwrap_or("X".into())).collect::<Vec<_>>(), "pos": t.pos})).collect::<Vec<_>>()}),
        bound_completed: format!("sweep: all 1,112,064 scalar values x {} templates; trees: length <= {} (8 symbols), <= {} (16 symbols); registry: {}", tpls.len(), n1, n2, if exhaustive_u32 { "all 2^32 values" } else { "0..=0x1FFFFF + lattice" }),
        exhaustive: false,
        assumptions: vec!["labels longer than the tree bound are covered only through the role templates; the rules are finite-state over (own code point, neighbour classes), every class is in the alphabet".into()],
        extra: json!({"wmethod_zwnj": wm}),
    };
    (st, cov)
}

pub fn replay(env: &Env, case: &Case) -> Vec<Violation> {
    let mut st = Stats::default();
    match case.op.as_str() {
        "rule" => {
            if let (Some(l), Some(pos), Some(name)) = (case.strs.first(), case.nums.first(), case.extra.as_str()) {
                if let Some(r) = CtxRule::from_name(name) {
                    let s = case.str_at(0); // at the address residue the case was found at
                    check_rule(env, r, l, &s, *pos as usize, &mut st);
                }
            }
        }
        "registry" => {
            if let Some(v) = case.nums.first() {
                check_registry(env, *v as u32, &mut st);
            }
        }
        _ => {}
    }
    st.violations
}
