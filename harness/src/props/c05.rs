//! C05 - OpaqueString applies RFC 8265 section 4.2 exactly.

use crate::engine::*;
use crate::env::Env;
use crate::props::c04::{check_op, check_relations, count_outcome};
use crate::subject::{from_cps, Op, Out, Prof};
use serde_json::json;

pub fn sigma05() -> Vec<char> {
    [
        0x61u32, 0x41, 0x20, 0xA0, 0x2003, 0x3000, 0x1680, // a A, ASCII space, four non-ASCII Zs (2 and 3 bytes)
        0xE9, 0x65, 0x301, 0x212B, // composed, base, mark, singleton (NFC changes it)
        0xFB01, 0xFF41, 0x2460, // compatibility characters that must survive
        0x65E5, 0x10400, // 3- and 4-byte letters
        0x09, 0x378, 0x200D, 0xA8, // disallowed, unassigned, contextual, HasCompat symbol
        0x334, // combining overlay (ccc 1, NFC_QC=Yes): between a base and a composing mark
    ]
    .iter()
    .map(|c| char::from_u32(*c).unwrap())
    .collect()
}

pub fn run(env: &Env, run: &Run) -> (Stats, Coverage) {
    let sigma = crate::sig::rotated(env, sigma05(), run.seed);
    let n = run.tier.pick(5, 6);
    let p = Prof::Opaque;
    let mut st = strtree(&sigma, n, |_chars, s, st| {
        let e1 = check_op(env, p, Op::Prepare, s, st);
        let e2 = check_op(env, p, Op::Enforce, s, st);
        count_outcome(&e2, s, st);
        if e2.changed_steps >= 1 {
            st.nontrivial += 1;
        }
        if !matches!(e1.primary, Out::Ok(_)) {
            check_relations(env, p, s, st);
        }
    });
    st.merge(cpsweep(|c, st| {
        let x = c as u32;
        for l in [vec![x], vec![0x61, x], vec![x, 0x61], vec![0x61, x, 0x61], vec![0xE9, x], vec![0x65E5, x], vec![0x10400, x], vec![x, 0x301], vec![0xA0, x, 0x3000], vec![0x61, x, 0x334]] {
            let s = from_cps(&l);
            check_op(env, p, Op::Prepare, &s, st);
            let e = check_op(env, p, Op::Enforce, &s, st);
            if e.changed_steps >= 1 {
                st.nontrivial += 1;
            }
        }
        for a in alias_chars(c) {
            for l in [vec![x, a as u32], vec![a as u32, x]] {
                check_op(env, p, Op::Enforce, &from_cps(&l), st);
            }
        }
    }));

    // structural families: pumped runs a^k b / b a^k / a^k b a (k around 8, 16, 32, 64 and, for a
    // few symbols, 128..1025) every ASCII character at every offset of 7..33-byte
    // ASCII strings (two fillers), alphabet symbols alone and in pairs inside 16..41-byte ASCII strings,
    // all of them at every address residue modulo 8 / 16 (sub-slices of a larger buffer)
    st.merge(run_structural(&sigma, run.tier, |s, st| {
        check_op(env, p, Op::Prepare, s, st);
        check_op(env, p, Op::Enforce, s, st);
    }));
    let dfam = crate::props::rules::decomposition_family(env);
    st.merge(run_family(&dfam, |s, st| {
        check_op(env, p, Op::Prepare, s, st);
        check_op(env, p, Op::Enforce, s, st);
    }));
    let stairs = crate::props::rules::block_staircases(env, crate::subject::Class::Freeform);
    st.merge(run_family(&stairs, |s, st| {
        check_op(env, p, Op::Prepare, s, st);
        check_op(env, p, Op::Enforce, s, st);
    }));
    st.sample(json!({"input": ["a", "U+3000", "U+FB01", "A"], "expected": "Ok(\"a U+FB01 A\"): ideographic space -> U+0020, ligature and case untouched"}));
    st.sample(json!({"input": ["e", "U+0301", "U+00A0"], "expected": "Ok(U+00E9 U+0020)"}));
    let cov = Coverage {
        rule: format!("every string of length <= {} over a 21-symbol alphabet (ASCII space, Zs of 2 and 3 bytes, NFC-changing sequences, compatibility characters, 1-4 byte letters, disallowed/unassigned/contextual) x {{prepare, enforce}} + pumped runs and ASCII block strings + every scalar value in 9 templates and next to each of its 16 other-plane aliases; oracle = non-empty -> FreeformClass(first offender) -> map non-ASCII Zs (UnicodeData gc=Zs) to U+0020 -> NFC -> non-empty; equality of whole results, so any other alteration is visible; non-trivial = a step changes the string", n),
        alphabet: json!(sigma.iter().map(|c| format!("U+{:04X}", *c as u32)).collect::<Vec<_>>()),
        bound_completed: format!("length <= {} ({} strings) x 2 ops; sweep 1,112,064 x 10 templates x 2", n, tree_size(sigma.len(), n)),
        exhaustive: false,
        assumptions: vec!["unicode-normalization's nfc() iterator is the trusted normaliser (the quick-check fast path of the subject is what is being compared against it)".into()],
        extra: json!({}),
    };
    (st, cov)
}

pub fn replay(env: &Env, case: &Case) -> Vec<Violation> {
    crate::props::c04::replay_ops(env, case)
}
