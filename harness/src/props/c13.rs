//! C13 - stabilize returns only fixed points and honours its iteration contract.
//! Explicit-state search: every function on a k-element universe x every start.

use crate::engine::*;
use crate::env::Env;
use crate::refmodel::ref_stabilize;
use crate::subject::{guard, E, DP};
use precis_core::profile::stabilize;
use precis_core::{CodepointInfo, Error};
use rayon::prelude::*;
use serde_json::json;
use std::borrow::Cow;
use std::cell::RefCell;

fn constrain<F>(f: F) -> F
where
    F: for<'b> Fn(&'b str) -> Result<Cow<'b, str>, Error>,
{
    f
}

// image encoding: 0..k-1 = element, k = Err(Invalid), k+1 = Err(BadCodepoint)
// universe: "", "a", "aa", ... - contains the empty string, and every smaller element is a
// prefix of every larger one, so f can hand back a *borrowed* string that differs from its input
fn name(i: usize) -> String {
    "a".repeat(i)
}

/// universe 0: element i = 'a' x i. universe 1: distinct characters (one of them two bytes long)
/// chosen so that elements occur inside other elements at the start, in the middle and at the end -
/// a rule can then hand back a *borrowed sub-slice* of its argument that drops bytes at both ends.
const UNIVERSE_B: [&str; 6] = ["", "\u{e9}", "a\u{e9}c", "xa\u{e9}cx", "\u{e9}c", "a\u{e9}cx"];

/// universe 2: members of EQUAL byte length with different content (and sub-slice relations):
/// a result that is "the same length as before" is not "unchanged"
const UNIVERSE_C: [&str; 6] = ["", "ab", "ba", "abc", "cab", "bc"];

fn universe(uni: u8, k: usize) -> Vec<String> {
    match uni {
        0 => (0..k).map(name).collect(),
        1 => UNIVERSE_B.iter().take(k).map(|s| s.to_string()).collect(),
        _ => UNIVERSE_C.iter().take(k).map(|s| s.to_string()).collect(),
    }
}

thread_local! {
    /// which pair of error shapes the two error codes stand for (0, 1 or 2); set by `check_fn`
    static ERRSET: std::cell::Cell<u8> = const { std::cell::Cell::new(0) };
}

/// the six shapes an `Error` can take, two per error set
fn err_of(code: usize, k: usize) -> E {
    match (ERRSET.with(|e| e.get()), code == k) {
        (0, true) => E::Invalid,
        (0, false) => E::Bad(0x42, 7, DP::Disallowed),
        (1, true) => E::ProfileRuleNA,
        (1, false) => E::CtxNotApplicable(0x200C, 7, DP::ContextJ),
        (_, true) => E::Undefined,
        (_, false) => E::MissingRule(0xB7, 7, DP::ContextO),
    }
}

fn impl_err(code: usize, k: usize) -> Error {
    use precis_core::UnexpectedError as U;
    match (ERRSET.with(|e| e.get()), code == k) {
        (0, true) => Error::Invalid,
        (0, false) => Error::BadCodepoint(CodepointInfo::new(0x42, 7, DP::Disallowed.to_impl())),
        (1, true) => Error::Unexpected(U::ProfileRuleNotApplicable),
        (1, false) => Error::Unexpected(U::ContextRuleNotApplicable(CodepointInfo::new(0x200C, 7, DP::ContextJ.to_impl()))),
        (_, true) => Error::Unexpected(U::Undefined),
        (_, false) => Error::Unexpected(U::MissingContextRule(CodepointInfo::new(0xB7, 7, DP::ContextO.to_impl()))),
    }
}

/// style: 0 = f always returns Owned; 1 = f returns Borrowed(input) when f(x)=x;
/// 2 = additionally a Borrowed sub-slice of the input whenever the image occurs in it (first
/// occurrence: a prefix in universe 0); 3 = the same with the last occurrence (a suffix in universe 0)
/// 4 = always Borrowed of a `'static` string that lies OUTSIDE the argument (a table entry, a
/// literal), even when the content equals the argument; 5 = Borrowed(input) when unchanged, else
/// such a foreign `'static` string
/// 6 / 7 = the argument AND every result are slices of one static pool in which the members
/// overlap (first / last occurrence): a result may start inside the argument and run past its end
/// form: 0 = &str, 1 = String, 2 = Cow::Borrowed, 3 = Cow::Owned
pub fn check_fn(f: &[usize], k: usize, start: usize, style: u8, form: u8, uni: u8, errset: u8, st: &mut Stats) {
    ERRSET.with(|e| e.set(errset % 3));
    let names: Vec<String> = universe(uni, k);
    let log: RefCell<Vec<String>> = RefCell::new(Vec::new());
    let closure = constrain(|x: &str| -> Result<Cow<'_, str>, Error> {
        log.borrow_mut().push(x.to_string());
        let i = names.iter().position(|n| n == x);
        let i = match i {
            Some(i) => i,
            None => return Err(Error::Invalid),
        };
        let img = f[i];
        if img >= k {
            return Err(impl_err(img, k));
        }
        if style >= 6 {
            Ok(Cow::Borrowed(in_pool(uni, &names[img], style == 7)))
        } else if style == 4 || (style == 5 && img != i) {
            Ok(Cow::Borrowed(foreign(uni, img)))
        } else if img == i && style >= 1 {
            Ok(Cow::Borrowed(unsafe_same(x)))
        } else if img != i && style >= 2 && x.contains(names[img].as_str()) {
            // a borrowed sub-slice of the input: different content, Borrowed variant
            let at = if style == 2 { x.find(names[img].as_str()) } else { x.rfind(names[img].as_str()) }.unwrap_or(0);
            Ok(Cow::Borrowed(&unsafe_same(x)[at..at + names[img].len()]))
        } else {
            Ok(Cow::Owned(names[img].clone()))
        }
    });
    fn unsafe_same(x: &str) -> &str {
        x
    }
    /// one static string per universe that contains every member, overlapping
    fn pool(uni: u8) -> &'static str {
        match uni {
            0 => "aaaaaaaaaaaa",
            1 => "xa\u{e9}cx",
            _ => "cabcba",
        }
    }
    fn in_pool(uni: u8, member: &str, last: bool) -> &'static str {
        let p = pool(uni);
        let at = if last { p.rfind(member) } else { p.find(member) }.unwrap_or(0);
        &p[at..at + member.len()]
    }
    fn foreign(uni: u8, img: usize) -> &'static str {
        match uni {
            0 => &"aaaaaaaaaaaa"[..img],
            1 => UNIVERSE_B[img],
            _ => UNIVERSE_C[img],
        }
    }
    let s0 = names[start].clone();
    // with the pool styles the borrowed argument forms hand over a slice of the pool itself
    let s0_ref: &str = if style >= 6 { in_pool(uni, &s0, false) } else { s0.as_str() };
    crate::watch::context(&format!("stabilize with f={:?} over universe {:?}, start {}, style {}, form {}", f, names, start, style, form));
    let got = guard(|| {
        let r = match form {
            0 => stabilize(s0_ref, &closure),
            1 => stabilize(s0.clone(), &closure),
            2 => stabilize(Cow::Borrowed(s0_ref), &closure),
            _ => stabilize(Cow::<str>::Owned(s0.clone()), &closure),
        };
        r.map(|c| c.into_owned()).map_err(|e| E::from_impl(&e))
    });
    st.evaluations += 1;
    st.traces += 1;
    let calls = log.borrow().clone();
    // reference
    let mut ref_log: Vec<String> = Vec::new();
    let (exp, exp_calls) = ref_stabilize(&s0, |x| {
        ref_log.push(x.to_string());
        let i = names.iter().position(|n| n == x).unwrap();
        if f[i] >= k {
            Err(err_of(f[i], k))
        } else {
            Ok(names[f[i]].clone())
        }
    });
    let case = || {
        Case::new("stabilize")
            .n(k as u64)
            .n(start as u64)
            .n(style as u64)
            .n(form as u64)
            .n(uni as u64)
            .n(errset as u64)
            .x(json!(f))
    };
    let descr = |r: &Result<String, E>| match r {
        Ok(s) => format!("Ok({})", s),
        Err(e) => format!("Err({:?})", e),
    };
    match got {
        Err(p) => st.violation("panic", case, descr(&exp), format!("PANIC({})", p)),
        Ok(got) => {
            if got != exp {
                // classify: the one known shape is "needs the 4th application"
                let kind = if exp.is_ok() && exp_calls == 4 && got == Err(E::Invalid) && calls.len() == 3 {
                    "three_applications_only"
                } else {
                    "result"
                };
                st.violation(kind, case, format!("{} after {} applications", descr(&exp), exp_calls), format!("{} after {} applications", descr(&got), calls.len()));
            } else {
                if calls.len() > 4 {
                    st.violation("too_many_calls", case, "at most 4 applications".into(), format!("{} applications", calls.len()));
                }
                // every application must be on the chain s0, f(s0), f(f(s0)), ... in order
                let mut chain: Vec<String> = vec![s0.clone()];
                for _ in 0..4 {
                    let last = chain.last().unwrap();
                    let i = names.iter().position(|n| n == last).unwrap();
                    if f[i] >= k {
                        break;
                    }
                    chain.push(names[f[i]].clone());
                }
                let on_chain = calls.len() <= chain.len() && calls.iter().zip(chain.iter()).all(|(a, b)| a == b);
                if !on_chain {
                    st.violation("call_sequence", case, format!("applications along {:?}", chain), format!("{:?}", calls));
                }
                if let Ok(x) = &got {
                    let i = names.iter().position(|n| n == x);
                    match i {
                        Some(i) if f[i] == i => {}
                        _ => st.violation("not_fixed_point", case, "a fixed point of f".into(), descr(&got)),
                    }
                }
            }
            st.count(&format!(
                "out:{}-after-{}",
                match &exp {
                    Ok(_) => "ok",
                    Err(E::Invalid) => "invalid",
                    Err(_) => "ferr",
                },
                exp_calls
            ));
        }
    }
    if exp_calls > 1 {
        st.nontrivial += 1;
    }
}

/// Re-entrancy: the rule handed to `stabilize` itself calls `stabilize` (a profile built from a
/// stabilised sub-rule): f(x) = h(stabilize(x, g)). g and h range over all functions on the
/// universe; the reference composes the two reference semantics.
pub fn check_nested(g: &[usize], h: &[usize], k: usize, start: usize, st: &mut Stats) {
    // error shapes rotate with the parameters (deterministically, so that a replay sees the same)
    ERRSET.with(|e| e.set(((g[0] + h[0] + start) % 3) as u8));
    let names: Vec<String> = (0..k).map(name).collect();
    let idx = |x: &str| names.iter().position(|n| n == x);
    let apply = |f: &[usize], x: &str| -> Result<String, E> {
        let i = idx(x).ok_or(E::Invalid)?;
        if f[i] >= k {
            Err(err_of(f[i], k))
        } else {
            Ok(names[f[i]].clone())
        }
    };
    let apply_impl = |f: &[usize], x: &str| -> Result<String, Error> {
        let i = idx(x).ok_or(Error::Invalid)?;
        if f[i] >= k {
            Err(impl_err(f[i], k))
        } else {
            Ok(names[f[i]].clone())
        }
    };
    let outer_calls = RefCell::new(0usize);
    let inner = constrain(|x: &str| -> Result<Cow<'_, str>, Error> { apply_impl(g, x).map(Cow::Owned) });
    let outer = constrain(|x: &str| -> Result<Cow<'_, str>, Error> {
        *outer_calls.borrow_mut() += 1;
        let mid = stabilize(x, &inner)?;
        apply_impl(h, &mid).map(Cow::Owned)
    });
    let s0 = names[start].clone();
    crate::watch::context(&format!("nested stabilize: outer rule x -> h(stabilize(x, g)) with g={:?} h={:?} over universe of {}, start {}", g, h, k, start));
    let got = guard(|| stabilize(s0.as_str(), &outer).map(|c| c.into_owned()).map_err(|e| E::from_impl(&e)));
    st.evaluations += 1;
    st.traces += 1;
    let f_ref = |x: &str| -> Result<String, E> {
        let (mid, _) = ref_stabilize(x, |y| apply(g, y));
        apply(h, &mid?)
    };
    let (exp, exp_calls) = ref_stabilize(&s0, f_ref);
    let case = || Case::new("nested").n(k as u64).n(start as u64).x(json!([g, h]));
    let descr = |r: &Result<String, E>| match r {
        Ok(s) => format!("Ok({:?})", s),
        Err(e) => format!("Err({:?})", e),
    };
    match got {
        Err(p) => st.violation("panic", case, descr(&exp), format!("PANIC({})", p)),
        Ok(got) => {
            let n = *outer_calls.borrow();
            if got != exp {
                st.violation("nested_result", case, format!("{} after {} outer applications", descr(&exp), exp_calls), format!("{} after {}", descr(&got), n));
            } else if n > 4 {
                st.violation("too_many_calls", case, "at most 4 applications of the outer rule".into(), format!("{}", n));
            }
        }
    }
    st.count("out:nested");
}

pub fn decode(mut idx: u64, k: usize) -> Vec<usize> {
    let base = (k + 2) as u64;
    let mut f = vec![0usize; k];
    for slot in f.iter_mut() {
        *slot = (idx % base) as usize;
        idx /= base;
    }
    f
}

/// a genuinely diverging rule: append a character each time
pub fn check_diverging(st: &mut Stats) {
    let calls = RefCell::new(0usize);
    let got = guard(|| {
        stabilize("x", constrain(|s: &str| -> Result<Cow<'_, str>, Error> {
            *calls.borrow_mut() += 1;
            Ok(Cow::Owned(format!("{}y", s)))
        }))
        .map(|c| c.into_owned())
        .map_err(|e| E::from_impl(&e))
    });
    st.evaluations += 1;
    st.traces += 1;
    st.states += 1;
    st.transitions += 1;
    let n = *calls.borrow();
    let case = || Case::new("diverging");
    match got {
        Ok(Err(E::Invalid)) => {
            if n > 4 {
                st.violation("too_many_calls", case, "at most 4 applications".into(), format!("{}", n));
            }
        }
        other => st.violation("result", case, "Err(Invalid)".into(), format!("{:?}", other)),
    }
}

pub fn run(_env: &Env, run: &Run) -> (Stats, Coverage) {
    let k = run.tier.pick(4usize, 6usize);
    let base = (k + 2) as u64;
    let nf = base.pow(k as u32);
    let shards: Vec<Stats> = (0..nf)
        .into_par_iter()
        .fold(Stats::default, |mut st, idx| {
            let f = decode(idx, k);
            for start in 0..k {
                st.states += 1;
                // transitions = applications the reference makes along the chain
                for uni in 0..3u8 {
                    for style in 0..8u8 {
                        // the argument forms only matter at entry; rotate them over styles/starts
                        for form in 0..4u8 {
                            if run.tier == Tier::Quick || form == ((start as u8 + style + uni) % 4) || idx % 7 == 0 {
                                // the six error shapes, two at a time
                                for errset in 0..3u8 {
                                    if errset == 0 || f.iter().any(|c| *c >= k) {
                                        st.transitions += 1;
                                        check_fn(&f, k, start, style, form, uni, errset, &mut st);
                                    }
                                }
                            }
                        }
                    }
                }
            }
            st
        })
        .collect();
    let mut st = Stats::default();
    for s in shards {
        st.merge(s);
    }
    check_diverging(&mut st);
    // nested use: all pairs (g, h) of functions on a smaller universe
    {
        let kn = run.tier.pick(3usize, 4usize);
        let basen = (kn + 2) as u64;
        let nfn = basen.pow(kn as u32);
        let shards: Vec<Stats> = (0..nfn * nfn)
            .into_par_iter()
            .fold(Stats::default, |mut st, idx| {
                let g = decode(idx / nfn, kn);
                let h = decode(idx % nfn, kn);
                for start in 0..kn {
                    st.states += 1;
                    st.transitions += 1;
                    check_nested(&g, &h, kn, start, &mut st);
                }
                st
            })
            .collect();
        for s in shards {
            st.merge(s);
        }
    }
    st.sample(json!({"universe 0": "element i = 'a' repeated i times (element 0 is the empty string)", "universe 1": UNIVERSE_B.iter().take(k).collect::<Vec<_>>()}));
    st.sample(json!({"k": 4, "f": "0->1,1->2,2->3,3->3", "start": 0, "expected": "Ok(3) after 4 applications (first + three re-applications)"}));
    st.sample(json!({"k": 4, "f": "0->1,1->0", "start": 0, "expected": "Err(Invalid) after 4 applications"}));
    st.sample(json!({"k": 4, "f": "0->1,1->Err(BadCodepoint)", "start": 0, "expected": "that BadCodepoint error, after 2 applications"}));
    let cov = Coverage {
        rule: format!("state = (f, start, universe, Cow style, argument form) with f ranging over ALL {}^{} functions from a {}-element universe of strings (three universes: a^i; distinct characters nested at the start / middle / end of each other; members of equal byte length with different content) to that universe + two error results, instantiated with each of the three pairs of error shapes (Invalid / BadCodepoint, ProfileRuleNotApplicable / ContextRuleNotApplicable, Undefined / MissingContextRule); oracle = RFC 8264 s.7 chain semantics (first application + 3 re-applications), call log must equal the chain; plus re-entrant use f(x) = h(stabilize(x, g)) for ALL pairs (g, h) of functions on a 3/4-element universe; non-trivial = chains needing more than one application", base, k, k),
        alphabet: json!({"universe": (0..k).map(name).collect::<Vec<_>>(), "universe_1": UNIVERSE_B.iter().take(k).collect::<Vec<_>>(), "errors": ["Invalid", "BadCodepoint(0x42,7,Disallowed)"]}),
        bound_completed: format!("all {} functions x {} starts x 3 universes x 8 Cow styles (always Owned / Borrowed when unchanged / Borrowed sub-slice at the first / last occurrence of the image in the argument: prefixes, suffixes and slices that drop bytes at both ends / Borrowed 'static strings outside the argument, always or when changed / argument and results all slices of one static pool in which the members overlap) (x 4 argument forms{})", nf, k, if run.tier == Tier::Quick { "" } else { ", rotated; all 4 on every 7th function" }),
        exhaustive: true,
        assumptions: vec!["stabilize only observes f through its return values; a universe of k strings contains every chain shape up to length k (converging after 0..k-1 steps, every cycle length <= k, failure at every step)".into()],
        extra: json!({"universe_size": k, "functions": nf}),
    };
    (st, cov)
}

pub fn replay(_env: &Env, case: &Case) -> Vec<Violation> {
    let mut st = Stats::default();
    match case.op.as_str() {
        "stabilize" if (4..=6).contains(&case.nums.len()) => {
            let f: Vec<usize> = case
                .extra
                .as_array()
                .map(|a| a.iter().filter_map(|x| x.as_u64().map(|x| x as usize)).collect())
                .unwrap_or_default();
            if f.len() == case.nums[0] as usize {
                check_fn(&f, case.nums[0] as usize, case.nums[1] as usize, case.nums[2] as u8, case.nums[3] as u8, case.nums.get(4).copied().unwrap_or(0) as u8, case.nums.get(5).copied().unwrap_or(0) as u8, &mut st);
            }
        }
        "diverging" => check_diverging(&mut st),
        "nested" if case.nums.len() == 2 => {
            let parse = |v: &serde_json::Value| -> Vec<usize> { v.as_array().map(|a| a.iter().filter_map(|x| x.as_u64().map(|x| x as usize)).collect()).unwrap_or_default() };
            let (g, h) = (parse(&case.extra[0]), parse(&case.extra[1]));
            let k = case.nums[0] as usize;
            if g.len() == k && h.len() == k {
                check_nested(&g, &h, k, case.nums[1] as usize, &mut st);
            }
        }
        _ => {}
    }
    st.violations
}
