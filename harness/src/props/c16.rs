//! C16 - results depend only on the arguments, not on API form, history or threads.
//! (a) API forms, (b) call histories against first-call-in-a-fresh-process results,
//! (c) schedules over the lazy singletons (separate binary, see harness-sched),
//! (d) inventory of shared-state constructs in the sources.

use crate::engine::*;
use crate::env::Env;
use crate::pipeline::{show_out, show_outb};
use crate::subject::*;
use crate::ucd::repo_dir;
use precis_core::profile::{PrecisFastInvocation, Profile, Rules};
use precis_core::Error;
use precis_profiles::{Nickname, OpaqueString, UsernameCaseMapped, UsernameCasePreserved};
use rayon::prelude::*;
use serde_json::json;
use std::borrow::Cow;
use std::process::Command;

fn conv(r: Result<Result<Cow<'_, str>, Error>, String>) -> Out {
    match r {
        Ok(Ok(c)) => Out::Ok(c.into_owned()),
        Ok(Err(e)) => Out::Err(E::from_impl(&e)),
        Err(p) => Out::Panic(p),
    }
}

fn convb(r: Result<Result<bool, Error>, String>) -> OutB {
    match r {
        Ok(Ok(c)) => OutB::Ok(c),
        Ok(Err(e)) => OutB::Err(E::from_impl(&e)),
        Err(p) => OutB::Panic(p),
    }
}

pub struct LongLived {
    ucm: UsernameCaseMapped,
    ucp: UsernameCasePreserved,
    opq: OpaqueString,
    nick: Nickname,
}

/// all (entry point, argument form) variants of one string operation
macro_rules! forms_for {
    ($ty:ty, $inst:expr, $op:ident, $s:expr) => {{
        let s: &str = $s;
        let owned: String = s.to_string();
        let roomy = || {
            let mut r = String::with_capacity(s.len() + 64);
            r.push_str(s);
            r
        };
        let v: Vec<(&'static str, Out)> = vec![
            ("static,&str", conv(guard(|| <$ty as PrecisFastInvocation>::$op(s)))),
            ("static,String", conv(guard(|| <$ty as PrecisFastInvocation>::$op(owned.clone())))),
            ("static,&String", conv(guard(|| <$ty as PrecisFastInvocation>::$op(&owned)))),
            ("static,Cow::Borrowed", conv(guard(|| <$ty as PrecisFastInvocation>::$op(Cow::Borrowed(s))))),
            ("static,Cow::Owned", conv(guard(|| <$ty as PrecisFastInvocation>::$op(Cow::<str>::Owned(owned.clone()))))),
            ("new(),&str", conv(guard(|| <$ty>::new().$op(s)))),
            ("new(),String", conv(guard(|| <$ty>::new().$op(owned.clone())))),
            ("default(),&str", conv(guard(|| <$ty>::default().$op(s)))),
            ("default(),Cow::Owned", conv(guard(|| <$ty>::default().$op(Cow::<str>::Owned(owned.clone()))))),
            ("long-lived,&str", conv(guard(|| $inst.$op(s)))),
            ("long-lived,&String", conv(guard(|| $inst.$op(&owned)))),
            ("long-lived,Cow::Borrowed", conv(guard(|| $inst.$op(Cow::Borrowed(s))))),
            ("static,String with spare capacity", conv(guard(|| <$ty as PrecisFastInvocation>::$op(roomy())))),
            ("new(),Cow::Owned with spare capacity", conv(guard(|| <$ty>::new().$op(Cow::<str>::Owned(roomy()))))),
        ];
        v
    }};
}

macro_rules! cmp_forms_for {
    ($ty:ty, $inst:expr, $a:expr, $b:expr) => {{
        let (a, b): (&str, &str) = ($a, $b);
        let (ao, bo) = (a.to_string(), b.to_string());
        let v: Vec<(&'static str, OutB)> = vec![
            ("static,&str,&str", convb(guard(|| <$ty as PrecisFastInvocation>::compare(a, b)))),
            ("static,String,&str", convb(guard(|| <$ty as PrecisFastInvocation>::compare(ao.clone(), b)))),
            ("static,&str,String", convb(guard(|| <$ty as PrecisFastInvocation>::compare(a, bo.clone())))),
            ("static,String,String", convb(guard(|| <$ty as PrecisFastInvocation>::compare(ao.clone(), bo.clone())))),
            ("new(),&str,&str", convb(guard(|| <$ty>::new().compare(a, b)))),
            ("default(),String,&String", convb(guard(|| <$ty>::default().compare(ao.clone(), &bo)))),
            ("long-lived,&str,&str", convb(guard(|| $inst.compare(a, b)))),
            ("long-lived,&String,String", convb(guard(|| $inst.compare(&ao, bo.clone())))),
        ];
        v
    }};
}

fn forms(ll: &LongLived, p: Prof, o: Op, s: &str) -> Vec<(&'static str, Out)> {
    match (p, o) {
        (Prof::Ucm, Op::Prepare) => forms_for!(UsernameCaseMapped, ll.ucm, prepare, s),
        (Prof::Ucm, Op::Enforce) => forms_for!(UsernameCaseMapped, ll.ucm, enforce, s),
        (Prof::Ucp, Op::Prepare) => forms_for!(UsernameCasePreserved, ll.ucp, prepare, s),
        (Prof::Ucp, Op::Enforce) => forms_for!(UsernameCasePreserved, ll.ucp, enforce, s),
        (Prof::Opaque, Op::Prepare) => forms_for!(OpaqueString, ll.opq, prepare, s),
        (Prof::Opaque, Op::Enforce) => forms_for!(OpaqueString, ll.opq, enforce, s),
        (Prof::Nick, Op::Prepare) => forms_for!(Nickname, ll.nick, prepare, s),
        (Prof::Nick, Op::Enforce) => forms_for!(Nickname, ll.nick, enforce, s),
    }
}

fn cmp_forms(ll: &LongLived, p: Prof, a: &str, b: &str) -> Vec<(&'static str, OutB)> {
    match p {
        Prof::Ucm => cmp_forms_for!(UsernameCaseMapped, ll.ucm, a, b),
        Prof::Ucp => cmp_forms_for!(UsernameCasePreserved, ll.ucp, a, b),
        Prof::Opaque => cmp_forms_for!(OpaqueString, ll.opq, a, b),
        Prof::Nick => cmp_forms_for!(Nickname, ll.nick, a, b),
    }
}

fn long_lived() -> LongLived {
    LongLived { ucm: UsernameCaseMapped::new(), ucp: UsernameCasePreserved::default(), opq: OpaqueString::new(), nick: Nickname::default() }
}

pub fn check_forms(ll_opt: Option<&LongLived>, s: &str, st: &mut Stats) {
    let own;
    let ll = match ll_opt {
        Some(l) => l,
        None => {
            own = long_lived();
            &own
        }
    };
    for p in Prof::ALL {
        for o in [Op::Prepare, Op::Enforce] {
            let v = forms(ll, p, o, s);
            st.evaluations += v.len() as u64;
            st.traces += 1;
            let first = &v[0].1;
            for (name, r) in &v[1..] {
                if r != first {
                    let nm = name.to_string();
                    st.violation(
                        "api_form",
                        || Case::new("forms").s(s).x(json!([p.name(), format!("{:?}", o), nm])),
                        format!("every entry point / argument form gives {} (static,&str)", show_out(first)),
                        format!("{}: {}", name, show_out(r)),
                    );
                }
            }
        }
        // the five rule functions: borrowed, owned (exact and spare capacity) and Cow arguments
        for rf in crate::subject::RuleFn::ALL {
            let base = crate::subject::rule(p, rf, s);
            let variants = [
                ("String", crate::subject::rule_owned(p, rf, s)),
                ("String with spare capacity", crate::subject::rule_owned_roomy(p, rf, s)),
            ];
            st.evaluations += 3;
            st.traces += 1;
            for (name, r) in variants {
                if r != base {
                    let nm = name.to_string();
                    st.violation(
                        "api_form",
                        || Case::new("forms").s(s).x(json!([p.name(), rf.name(), nm])),
                        format!("every argument form gives {} (&str)", show_out(&base)),
                        format!("{}: {}", name, show_out(&r)),
                    );
                }
            }
        }
        // second operand: a fixed string, the label itself, and its ASCII-case variants (a pair that
        // is "the same up to case" is where a shortcut would be taken)
        let (up, low) = (s.to_ascii_uppercase(), s.to_ascii_lowercase());
        for b in ["abc", s, up.as_str(), low.as_str()] {
            let v = cmp_forms(ll, p, s, b);
            st.evaluations += v.len() as u64;
            st.traces += 1;
            let first = &v[0].1;
            for (name, r) in &v[1..] {
                if r != first {
                    let nm = name.to_string();
                    st.violation(
                        "api_form",
                        || Case::new("cmp_forms").s(s).s(b).x(json!([p.name(), "compare", nm])),
                        format!("every entry point / argument form gives {}", show_outb(first)),
                        format!("{}: {}", name, show_outb(r)),
                    );
                }
            }
        }
    }
}

// ---- (b) histories -------------------------------------------------------

pub const INPUTS: [&str; 14] = [
    "abc",                       // unchanged on every path
    "Abc",                       // changed at index 0 (case-mapped), unchanged elsewhere
    "\u{e9}\u{3000}\u{ff22}",    // changed after a multi-byte prefix (space / width)
    "\u{a8}a",                   // needs two nickname rounds
    "a\u{9}",                    // rejected
    "\u{5d0}1",                  // right-to-left, valid
    "\u{5d0}a",                  // right-to-left, rejected by the directionality rule
    "\u{e9}",                    // plain non-ASCII letter
    "\u{aa}",                    // HasCompat: the two string classes disagree about it
    "a\u{ff22}\u{ff76}",         // width-mapped characters from the middle of the table
    "   ",                       // only spaces: an error that is found late (after mapping, "empty")
    "a\u{3000}b \u{a0}",         // non-ASCII spaces (the call after an error must still map them)
    "\u{4e2d}\u{6587}",          // valid ideographs ...
    "x\u{104e2d}",               // ... and a rejected label with the plane-16 alias of the first (per-thread memo keyed by 16 bits)
];

#[derive(Copy, Clone, Debug, PartialEq, Eq)]
pub enum Op3 {
    Prepare,
    Enforce,
    Compare,
    /// the five rule functions, one after the other (instance API only)
    Rules,
}

pub fn alphabet() -> Vec<(Prof, Op3, usize)> {
    let mut v = Vec::new();
    for p in Prof::ALL {
        for o in [Op3::Prepare, Op3::Enforce, Op3::Compare, Op3::Rules] {
            for i in 0..INPUTS.len() {
                v.push((p, o, i));
            }
        }
    }
    v
}

/// run one alphabet member through the static API; rendered as text
pub fn run_static(a: (Prof, Op3, usize)) -> String {
    let s = INPUTS[a.2];
    match a.1 {
        Op3::Prepare => show_out(&prepare_static(a.0, s)),
        Op3::Enforce => show_out(&enforce_static(a.0, s)),
        Op3::Compare => show_outb(&compare_static(a.0, s, "ABC")),
        Op3::Rules => rules_text(|rf| crate::subject::rule(a.0, rf, s)),
    }
}

fn rules_text<F: Fn(crate::subject::RuleFn) -> Out>(f: F) -> String {
    crate::subject::RuleFn::ALL.iter().map(|rf| format!("{}={}", rf.name(), show_out(&f(*rf)))).collect::<Vec<_>>().join(" ; ")
}

macro_rules! rules_on {
    ($inst:expr, $s:expr) => {{
        use crate::subject::RuleFn;
        rules_text(|rf| match rf {
            RuleFn::Width => conv(guard(|| $inst.width_mapping_rule($s))),
            RuleFn::Additional => conv(guard(|| $inst.additional_mapping_rule($s))),
            RuleFn::Case => conv(guard(|| $inst.case_mapping_rule($s))),
            RuleFn::Norm => conv(guard(|| $inst.normalization_rule($s))),
            RuleFn::Dir => conv(guard(|| $inst.directionality_rule($s))),
        })
    }};
}

fn run_long_lived(ll: &LongLived, a: (Prof, Op3, usize)) -> String {
    let s = INPUTS[a.2];
    match (a.0, a.1) {
        (Prof::Ucm, Op3::Prepare) => show_out(&conv(guard(|| ll.ucm.prepare(s)))),
        (Prof::Ucm, Op3::Enforce) => show_out(&conv(guard(|| ll.ucm.enforce(s)))),
        (Prof::Ucm, Op3::Compare) => show_outb(&convb(guard(|| ll.ucm.compare(s, "ABC")))),
        (Prof::Ucp, Op3::Prepare) => show_out(&conv(guard(|| ll.ucp.prepare(s)))),
        (Prof::Ucp, Op3::Enforce) => show_out(&conv(guard(|| ll.ucp.enforce(s)))),
        (Prof::Ucp, Op3::Compare) => show_outb(&convb(guard(|| ll.ucp.compare(s, "ABC")))),
        (Prof::Opaque, Op3::Prepare) => show_out(&conv(guard(|| ll.opq.prepare(s)))),
        (Prof::Opaque, Op3::Enforce) => show_out(&conv(guard(|| ll.opq.enforce(s)))),
        (Prof::Opaque, Op3::Compare) => show_outb(&convb(guard(|| ll.opq.compare(s, "ABC")))),
        (Prof::Nick, Op3::Prepare) => show_out(&conv(guard(|| ll.nick.prepare(s)))),
        (Prof::Nick, Op3::Enforce) => show_out(&conv(guard(|| ll.nick.enforce(s)))),
        (Prof::Nick, Op3::Compare) => show_outb(&convb(guard(|| ll.nick.compare(s, "ABC")))),
        (Prof::Ucm, Op3::Rules) => rules_on!(ll.ucm, s),
        (Prof::Ucp, Op3::Rules) => rules_on!(ll.ucp, s),
        (Prof::Opaque, Op3::Rules) => rules_on!(ll.opq, s),
        (Prof::Nick, Op3::Rules) => rules_on!(ll.nick, s),
    }
}

/// child mode: `pmc __first <index>` - the very first library call of a fresh process
pub fn child_first(idx: usize) -> i32 {
    let a = alphabet();
    if idx >= a.len() {
        return 2;
    }
    crate::subject::silence_panics();
    println!("{}", run_static(a[idx]));
    0
}

/// The calls the stress pass makes: the 120-call alphabet plus "collision families" of
/// single-character labels - a few characters of different classes, each shifted by 2^k for
/// k = 8..16, so that any direct-mapped per-code-point cache of 2^8..2^16 slots sees
/// conflicting entries in one slot.
pub fn stress_calls() -> Vec<(Prof, Op3, String)> {
    let mut v: Vec<(Prof, Op3, String)> = alphabet().into_iter().map(|(p, o, i)| (p, o, INPUTS[i].to_string())).collect();
    for base in [0xAAu32, 0xAD, 0xB5, 0xE9, 0x5D0, 0x3000, 0x41] {
        let mut cps = vec![base];
        for k in 8..=16u32 {
            cps.push(base + (1 << k));
            cps.push(base ^ (1 << k));
        }
        cps.sort_unstable();
        cps.dedup();
        for cp in cps {
            if let Some(c) = char::from_u32(cp) {
                v.push((Prof::Ucp, Op3::Prepare, c.to_string()));
                v.push((Prof::Nick, Op3::Prepare, c.to_string()));
            }
        }
    }
    v
}

fn run_static_str(p: Prof, o: Op3, s: &str) -> String {
    match o {
        Op3::Prepare => show_out(&prepare_static(p, s)),
        Op3::Enforce => show_out(&enforce_static(p, s)),
        Op3::Compare => show_outb(&compare_static(p, s, "ABC")),
        Op3::Rules => rules_text(|rf| crate::subject::rule(p, rf, s)),
    }
}

/// child mode `pmc __expect`: every stress call once, single-threaded, in a fresh process
pub fn child_expect() -> i32 {
    crate::subject::silence_panics();
    for (p, o, s) in stress_calls() {
        println!("{}", run_static_str(p, o, &s).replace('\n', " "));
    }
    0
}

/// child mode: `pmc __stress <seed> <threads> <rounds>` - free-running threads released from a
/// barrier in a fresh process; prints every distinct (call, answer) it observed.
/// SAMPLING, supplementary: it can only add violations (it catches races on state that the
/// schedule explorer cannot intercept, e.g. `static mut` / `UnsafeCell`).
pub fn child_stress(seed: u64, nthreads: usize, rounds: usize) -> i32 {
    crate::subject::silence_panics();
    let calls = std::sync::Arc::new(stress_calls());
    let barrier = std::sync::Arc::new(std::sync::Barrier::new(nthreads));
    let mut handles = Vec::new();
    for t in 0..nthreads {
        let b = barrier.clone();
        let calls = calls.clone();
        handles.push(std::thread::spawn(move || {
            let mut x = seed.wrapping_mul(0x9E3779B97F4A7C15).wrapping_add(t as u64 + 1);
            let mut seen: Vec<(usize, String)> = Vec::new();
            // half of the threads stay inside ONE collision family (chosen by seed and thread pair),
            // so that two neighbouring threads keep hitting code points that differ by 2^k
            let nalpha = alphabet().len();
            let fam_len = (calls.len() - nalpha) / 7;
            let (lo, hi) = if t % 2 == 1 && fam_len > 0 {
                let f = ((seed as usize) + t / 2) % 7;
                (nalpha + f * fam_len, (nalpha + (f + 1) * fam_len).min(calls.len()))
            } else if t % 4 == 2 && fam_len > 0 {
                let f = ((seed as usize) + (t + 1) / 2) % 7;
                (nalpha + f * fam_len, (nalpha + (f + 1) * fam_len).min(calls.len()))
            } else {
                (0, calls.len())
            };
            b.wait();
            for _ in 0..((x >> 7) % 64) {
                std::hint::spin_loop();
            }
            for _ in 0..rounds {
                x ^= x << 13;
                x ^= x >> 7;
                x ^= x << 17;
                let i = lo + (x % (hi - lo) as u64) as usize;
                let (p, o, s) = &calls[i];
                let got = run_static_str(*p, *o, s);
                if !seen.iter().any(|(j, g)| *j == i && *g == got) {
                    seen.push((i, got));
                }
            }
            seen
        }));
    }
    for h in handles {
        match h.join() {
            Ok(v) => {
                for (i, got) in v {
                    println!("OBS {} {}", i, got.replace('\n', " "));
                }
            }
            Err(_) => {
                println!("OBS-PANIC");
            }
        }
    }
    println!("DONE");
    0
}

/// run the stress children and turn mismatches into violations
pub fn stress(run: &Run, st: &mut Stats) -> serde_json::Value {
    let bin = match std::env::var("PMC_BIN").map(std::path::PathBuf::from).or_else(|_| std::env::current_exe()) {
        Ok(b) => b,
        Err(_) => return json!(null),
    };
    let calls = stress_calls();
    let expected: Vec<String> = match Command::new(&bin).arg("__expect").output() {
        Ok(o) if o.status.success() => String::from_utf8_lossy(&o.stdout).lines().map(|l| l.to_string()).collect(),
        _ => {
            st.caps_hit.push("MACHINERY: stress pass: cannot compute the single-threaded expectations".into());
            return json!(null);
        }
    };
    if expected.len() != calls.len() {
        st.caps_hit.push("MACHINERY: stress pass: expectation table has the wrong size".into());
        return json!(null);
    }
    let children = run.tier.pick(24usize, 64usize);
    let rounds = run.tier.pick(40000usize, 200000usize);
    let outs: Vec<(u64, String)> = (0..children as u64)
        .into_par_iter()
        .map(|k| {
            let seed = run.seed.wrapping_mul(1000).wrapping_add(k);
            let threads = 2 + (k % 3) as usize * 3; // 2, 5 or 8 threads
            let o = Command::new(&bin).arg("__stress").arg(seed.to_string()).arg(threads.to_string()).arg(rounds.to_string()).output();
            (seed, o.map(|o| String::from_utf8_lossy(&o.stdout).to_string()).unwrap_or_default())
        })
        .collect();
    let mut mismatches = 0u64;
    for (seed, text) in &outs {
        st.evaluations += 1;
        if !text.contains("DONE") || text.contains("OBS-PANIC") {
            st.violation("stress_crash", || Case::new("stress").n(*seed), "the stress child finishes".into(), format!("child produced: {}", text.chars().take(200).collect::<String>()));
        }
        for line in text.lines().filter(|l| l.starts_with("OBS ")) {
            let mut it = line.splitn(3, ' ');
            it.next();
            let idx = match it.next().and_then(|x| x.parse::<usize>().ok()) {
                Some(i) if i < calls.len() => i,
                _ => continue,
            };
            let got = it.next().unwrap_or("");
            st.traces += 1;
            if got != expected[idx] {
                mismatches += 1;
                let (p, o, s) = &calls[idx];
                let call = format!("{}.{:?}({})", p.name(), o, show(s));
                st.violation("stress", || Case::new("stress").n(*seed).x(json!(call)), format!("{} (single-threaded, fresh process)", expected[idx]), got.to_string());
            }
        }
    }
    json!({"kind": "SAMPLING (supplementary; adds violations only)", "children": children, "threads_per_child": "2, 5 or 8", "calls_per_thread": rounds, "distinct_calls": calls.len(), "mismatches": mismatches})
}

/// R[a]: result of each alphabet member as the first call in a fresh process
pub fn first_call_table() -> Result<Vec<String>, String> {
    let bin = std::env::var("PMC_BIN").map(std::path::PathBuf::from).or_else(|_| std::env::current_exe()).map_err(|e| e.to_string())?;
    let n = alphabet().len();
    (0..n)
        .into_par_iter()
        .map(|i| {
            let out = Command::new(&bin).arg("__first").arg(i.to_string()).output().map_err(|e| format!("spawn {}: {}", bin.display(), e))?;
            if !out.status.success() {
                return Err(format!("child {} exited with {:?}", i, out.status));
            }
            Ok(String::from_utf8_lossy(&out.stdout).trim_end().to_string())
        })
        .collect()
}

pub fn check_history(ll: &LongLived, r: &[String], hist: &[usize], st: &mut Stats) -> Vec<bool> {
    let alpha = alphabet();
    let mut sig = Vec::new();
    for (k, &i) in hist.iter().enumerate() {
        let got_s = run_static(alpha[i]);
        let got_l = run_long_lived(ll, alpha[i]);
        st.evaluations += 2;
        st.traces += 1;
        st.transitions += 1;
        for (which, got) in [("static", &got_s), ("long-lived instance", &got_l)] {
            if *got != r[i] {
                let w = which.to_string();
                st.violation(
                    "history",
                    || Case::new("history").x(json!({"history": hist, "step": k, "entry": w})),
                    format!("{} (result of the same call as the first call of a fresh process)", r[i]),
                    format!("{} after history {:?} via {}", got, &hist[..k], which),
                );
            }
        }
        sig.push(got_s == r[i] && got_l == r[i]);
    }
    sig
}

// ---- (d) inventory of shared state ---------------------------------------

pub fn shared_state_inventory() -> (Vec<String>, Vec<String>) {
    let mut known = Vec::new();
    let mut unknown = Vec::new();
    let expected: [(&str, &str); 7] = [
        ("precis-profiles/src/nicknames.rs", "static ref NICKNAME"),
        ("precis-profiles/src/passwords.rs", "static ref OPAQUE_STRING"),
        ("precis-profiles/src/usernames.rs", "static ref USERNAME_CASE_MAPPED"),
        ("precis-profiles/src/usernames.rs", "static ref USERNAME_CASE_PRESERVED"),
        ("precis-tools/src/csv_parser.rs", "static ref PARTS"),
        ("precis-tools/src/generators/unicode_version.rs", "static ref VERSION_RX"),
        ("precis-tools/src/generators/exceptions.rs", "static ref"),
    ];
    let needles = ["static ", "lazy_static!", "thread_local!", "Mutex", "RwLock", "Atomic", "Cell<", "RefCell", "UnsafeCell", "OnceLock", "OnceCell", "Once::", "unsafe ", "unsafe{", "static mut"];
    fn walk(dir: &std::path::Path, out: &mut Vec<std::path::PathBuf>) {
        if let Ok(rd) = std::fs::read_dir(dir) {
            for e in rd.flatten() {
                let p = e.path();
                if p.is_dir() {
                    if p.file_name().map(|n| n == "target" || n == "resources" || n == ".git").unwrap_or(false) {
                        continue;
                    }
                    walk(&p, out);
                } else if p.extension().map(|x| x == "rs").unwrap_or(false) {
                    out.push(p);
                }
            }
        }
    }
    let mut files = Vec::new();
    for c in ["precis-core", "precis-profiles", "precis-tools"] {
        walk(&repo_dir().join(c).join("src"), &mut files);
        let b = repo_dir().join(c).join("build.rs");
        if b.exists() {
            files.push(b);
        }
    }
    files.sort();
    for f in files {
        let rel = f.strip_prefix(repo_dir()).unwrap_or(&f).display().to_string();
        let text = std::fs::read_to_string(&f).unwrap_or_default();
        let mut in_tests = false;
        for (ln, line) in text.lines().enumerate() {
            let t = line.trim();
            if t.starts_with("#[cfg(test)]") {
                in_tests = true;
            }
            if t.starts_with("//") || in_tests {
                continue;
            }
            // string literals that merely mention `static` (the code generators write table sources)
            let code = match t.find('"') {
                Some(i) if t.matches('"').count() >= 2 => &t[..i],
                _ => t,
            };
            if !needles.iter().any(|n| code.contains(n)) {
                continue;
            }
            if code.contains("&'static") && !code.contains("static ref") && !code.starts_with("static ") && !code.contains("lazy_static!") {
                continue; // a lifetime, not a static item
            }
            if code.contains("lazy_static!") || code.contains("use lazy_static") {
                continue; // the macro invocation itself; the `static ref` line inside is what is listed
            }
            let is_known = expected.iter().any(|(file, pat)| rel == *file && code.contains(pat));
            let item = format!("{}:{}: {}", rel, ln + 1, t);
            if is_known {
                known.push(item);
            } else {
                unknown.push(item);
            }
        }
    }
    (known, unknown)
}

pub fn sigma16() -> Vec<char> {
    [0x61u32, 0x41, 0x20, 0xA0, 0xE9, 0x301, 0xFF21, 0xA8, 0x1C5, 0x5D0, 0x31, 0x09, 0x3000, 0x10400, 0xB7, 0x6C]
        .iter()
        .map(|c| char::from_u32(*c).unwrap())
        .collect()
}

pub fn run(_env: &Env, run: &Run) -> (Stats, Coverage) {
    let mut st = Stats::default();
    // (a)
    let sigma = crate::sig::rotated(_env, sigma16(), run.seed);
    let n = run.tier.pick(3, 4);
    let _ = tree_size(1, 1);
    // sequential on purpose: (a) and (b) are about single-threaded semantics and must be
    // reproducible; concurrency is the subject of (c)
    {
        let ll = long_lived();
        let mut frontier: Vec<String> = vec![String::new()];
        let mut all: Vec<String> = vec![String::new()];
        for _ in 0..n {
            let mut next = Vec::new();
            for f in &frontier {
                for c in &sigma {
                    let mut t = f.clone();
                    t.push(*c);
                    next.push(t);
                }
            }
            all.extend(next.iter().cloned());
            frontier = next;
        }
        for s in &all {
            st.states += 1;
            st.transitions += 1;
            check_forms(Some(&ll), s, &mut st);
            st.count("out:forms-compared");
        }
    }
    // (b)
    let alpha = alphabet();
    let table = match first_call_table() {
        Ok(t) => t,
        Err(e) => {
            st.caps_hit.push(format!("MACHINERY: first-call table: {}", e));
            vec![]
        }
    };
    let depth = run.tier.pick(2usize, 3usize);
    let mut distinct_states = std::collections::BTreeSet::new();
    if table.len() == alpha.len() {
        let ll = long_lived();
        let k = alpha.len();
        let mut hist: Vec<Vec<usize>> = (0..k).map(|i| vec![i]).collect();
        let mut frontier = hist.clone();
        for _ in 1..depth {
            let mut next = Vec::new();
            for h in &frontier {
                for i in 0..k {
                    let mut g = h.clone();
                    g.push(i);
                    next.push(g);
                }
            }
            hist.extend(next.iter().cloned());
            frontier = next;
        }
        // histories run sequentially on purpose: they share the process-wide statics
        for h in &hist {
            st.states += 1;
            let sig = check_history(&ll, &table, h, &mut st);
            distinct_states.insert(sig.iter().all(|b| *b));
            if h.len() >= 2 && h.iter().any(|i| *i != h[0]) {
                st.nontrivial += 1;
            }
        }
        st.add("histories", hist.len() as u64);
    }
    // (c) schedules
    let sched = crate::props::c16_sched::run_sched(run.tier, &mut st);
    // (e) free-running stress in fresh processes - sampling, supplementary
    let stress_report = stress(run, &mut st);
    // (f) race-detector pass: the same kind of bodies on free-running threads under ThreadSanitizer
    let race_report = crate::race::race_pass("lib", run, &mut st);
    // (d)
    let (known, unknown) = shared_state_inventory();
    let instrumented = std::env::var("PMC_SCHED_MODE").map(|m| m == "instrumented").unwrap_or(false);
    for u in &unknown {
        let code = u.splitn(2, ": ").nth(1).unwrap_or(u);
        let by_shim = ["Atomic", "Mutex", "RwLock", "OnceLock", "Once::", "LazyLock", "sync::atomic", "sync::{"].iter().any(|n| code.contains(n))
            && !code.contains("static mut")
            && !code.contains("UnsafeCell");
        if instrumented && by_shim {
            st.note(format!("new shared-state construct, scheduled by the instrumented build (sched_sync): {}", u));
        } else {
            st.note(format!("UNMODELLED shared-state construct (no scheduling point in the schedule explorer; only the history search can see its effects): {}", u));
        }
    }
    st.sample(json!({"forms": "UsernameCaseMapped::enforce(\"Abc\") via static/new()/default()/long-lived x &str/String/&String/Cow::Borrowed/Cow::Owned", "expected": "all Ok(\"abc\")"}));
    st.sample(json!({"history": ["Nickname.enforce(U+00A8 a)", "UsernameCaseMapped.compare(Abc, ABC)", "Nickname.enforce(U+00A8 a)"], "expected": "each result equals the result of the same call made first in a fresh process"}));
    let cov = Coverage {
        rule: format!("(a) every string of length <= {} over 16 symbols x 4 profiles x ({{prepare, enforce}} x 14 (entry point, argument form) pairs (incl. owned Strings with spare capacity), the five rule functions x 3 argument forms) and compare x 8 forms: all equal; (b) every call history of length <= {} over an alphabet of {} calls (4 profiles x {{prepare, enforce, compare, the five rule functions}} x 14 inputs hitting every fast and slow path, incl. errors that are found late and two labels whose characters agree in their low 16 bits) executed on the process-wide statics and on one long-lived instance per profile, every result compared with the result of that call as the FIRST library call of a fresh process ({} child processes); (c) every interleaving of 2-3 threads over the lazy-singleton points, see 'schedules'; (d) inventory of shared-state constructs in the three crates; (e) SAMPLING, supplementary: free-running threads released from a barrier in fresh child processes; (f) race-detector pass for state the explorer has no scheduling point for: every one of ~1000 library calls (4 profiles x static/instance/rule-level entry points, both classes, all 8 context rules x 46 labels) as the first use of the library by 3 threads of a fresh process, and every unordered pair of those calls on 2 free-running threads, under ThreadSanitizer with std rebuilt (see 'race_detector_pass'); non-trivial = histories mixing different calls", n, depth, alpha.len(), alpha.len()),
        alphabet: json!({"symbols": sigma.iter().map(|c| format!("U+{:04X}", *c as u32)).collect::<Vec<_>>(), "history_inputs": INPUTS.iter().map(|s| show(s)).collect::<Vec<_>>()}),
        bound_completed: format!("forms: {} strings; histories: depth {}", tree_size(sigma.len(), n), depth),
        exhaustive: false,
        assumptions: vec!["std::sync::Once (inside lazy_static) is trusted; the schedule explorer models it and checks the crates' code around the singletons".into()],
        extra: json!({"abstract_states_after_histories": distinct_states.len(), "shared_state_known": known, "shared_state_unmodelled": unknown, "schedules": sched, "stress": stress_report, "race_detector_pass": race_report}),
    };
    (st, cov)
}

pub fn replay(_env: &Env, case: &Case) -> Vec<Violation> {
    let mut st = Stats::default();
    match case.op.as_str() {
        "forms" | "cmp_forms" => {
            let mut all = Stats::default();
            check_forms(None, &case.str_at(0), &mut all);
            st.violations = all.violations.into_iter().filter(|v| v.case.op == case.op && v.case.extra == case.extra && v.case.strs == case.strs).collect();
        }
        "history" => {
            if let (Ok(table), Some(h)) = (first_call_table(), case.extra["history"].as_array()) {
                let h: Vec<usize> = h.iter().filter_map(|x| x.as_u64().map(|x| x as usize)).collect();
                let ll = long_lived();
                let mut all = Stats::default();
                check_history(&ll, &table, &h, &mut all);
                st.violations = all.violations.into_iter().filter(|v| v.case.extra == case.extra).collect();
            }
        }
        "schedule" => {
            st.violations = crate::props::c16_sched::replay_sched(case);
        }
        "race" => st.violations = crate::race::replay(case),
        "stress" | "stress_crash" => {
            // sampling: re-running the same seed is likely, not certain, to show the mismatch again
            let fake = Run { prop: "C16".into(), tier: Tier::Quick, seed: case.nums.first().copied().unwrap_or(0) / 1000, start: std::time::Instant::now(), known: vec![] };
            let mut all = Stats::default();
            stress(&fake, &mut all);
            st.violations = all.violations.into_iter().take(1).map(|mut v| { v.case = case.clone(); v }).collect();
        }
        _ => {}
    }
    st.violations
}
