//! C17 - the PRECIS registry CSV parser reads back exactly what a row says.

use crate::engine::*;
use crate::env::Env;
use crate::subject::guard;
use crate::ucd::verif_dir;
use precis_tools::{CsvLineParser, DerivedProperties, DerivedProperty, PrecisDerivedProperty};
use rayon::prelude::*;
use serde_json::json;
use std::path::PathBuf;
use std::str::FromStr;

const NAMES: [&str; 7] = ["PVALID", "FREE_PVAL", "CONTEXTJ", "CONTEXTO", "DISALLOWED", "ID_DIS", "UNASSIGNED"];

fn name_of(p: DerivedProperty) -> &'static str {
    match p {
        DerivedProperty::PValid => "PVALID",
        DerivedProperty::FreePVal => "FREE_PVAL",
        DerivedProperty::ContextJ => "CONTEXTJ",
        DerivedProperty::ContextO => "CONTEXTO",
        DerivedProperty::Disallowed => "DISALLOWED",
        DerivedProperty::IdDis => "ID_DIS",
        DerivedProperty::Unassigned => "UNASSIGNED",
    }
}

/// What a row says, by construction.
#[derive(Clone, Debug, PartialEq)]
pub struct RowSpec {
    pub start: u32,
    pub end: Option<u32>,
    pub p1: usize,
    pub p2: Option<usize>,
    pub desc: String,
}

/// Render what the parser returned in the same vocabulary.
fn render(r: &PrecisDerivedProperty) -> (u32, Option<u32>, String, Option<String>, String) {
    let (s, e) = match r.codepoints {
        ucd_parse::Codepoints::Single(c) => (c.value(), None),
        ucd_parse::Codepoints::Range(r) => (r.start.value(), Some(r.end.value())),
    };
    let (a, b) = match r.properties {
        DerivedProperties::Single(p) => (name_of(p).to_string(), None),
        DerivedProperties::Tuple((p, q)) => (name_of(p).to_string(), Some(name_of(q).to_string())),
    };
    (s, e, a, b, r.description.clone())
}

fn spec_tuple(s: &RowSpec) -> (u32, Option<u32>, String, Option<String>, String) {
    (s.start, s.end, NAMES[s.p1].to_string(), s.p2.map(|i| NAMES[i].to_string()), s.desc.clone())
}

fn strip_eol(s: &str) -> &str {
    s.trim_end_matches(|c| c == '\n' || c == '\r')
}

fn matches_spec(got: &PrecisDerivedProperty, spec: &RowSpec) -> bool {
    let g = render(got);
    let e = spec_tuple(spec);
    g.0 == e.0 && g.1 == e.1 && g.2 == e.2 && g.3 == e.3 && strip_eol(&g.4) == strip_eol(&e.4)
}

pub fn check_row_ok(row: &str, spec: &RowSpec, st: &mut Stats) {
    st.evaluations += 1;
    st.traces += 1;
    let r = guard(|| PrecisDerivedProperty::from_str(row));
    let mk = || Case::new("row_ok").s(row).x(json!({"start": spec.start, "end": spec.end, "p1": spec.p1, "p2": spec.p2, "desc": spec.desc}));
    match r {
        Err(p) => st.violation("panic", mk, format!("{:?}", spec_tuple(spec)), format!("PANIC({})", p)),
        Ok(Err(e)) => st.violation("well_formed_rejected", mk, format!("{:?}", spec_tuple(spec)), format!("Err({})", e.mesg())),
        Ok(Ok(v)) => {
            if !matches_spec(&v, spec) {
                st.violation("misparse", mk, format!("{:?}", spec_tuple(spec)), format!("{:?}", render(&v)));
            }
        }
    }
    st.count("out:parsed");
}

pub fn check_row_bad(row: &str, why: &str, st: &mut Stats) {
    st.evaluations += 1;
    st.traces += 1;
    let r = guard(|| PrecisDerivedProperty::from_str(row));
    let mk = || Case::new("row_bad").s(row).x(json!(why));
    match r {
        Err(p) => st.violation("panic", mk, format!("Err (malformed: {})", why), format!("PANIC({})", p)),
        Ok(Ok(v)) => st.violation("malformed_accepted", mk, format!("Err (malformed: {})", why), format!("Ok({:?})", render(&v))),
        Ok(Err(_)) => {}
    }
    st.count("out:rejected");
    st.nontrivial += 1;
}

fn hexes(v: u32) -> Vec<String> {
    let mut out = vec![format!("{:04X}", v)];
    let six = format!("{:06X}", v);
    if !out.contains(&six) {
        out.push(six);
    }
    let five = format!("{:05X}", v);
    if !out.contains(&five) {
        out.push(five);
    }
    out
}

fn prop_fields() -> Vec<(String, usize, Option<usize>)> {
    let mut v = Vec::new();
    for (i, n) in NAMES.iter().enumerate() {
        v.push((n.to_string(), i, None));
    }
    for (i, a) in NAMES.iter().enumerate() {
        for (j, b) in NAMES.iter().enumerate() {
            for sp in [" or ", "  or ", " or   "] {
                v.push((format!("{}{}{}", a, sp, b), i, Some(j)));
            }
        }
    }
    v
}

const DESCS: [&str; 8] = ["", "LATIN SMALL LETTER A", "A, B", ",", "x or y", "a,b,c,d", "<control>..<control>", "trailing cr\r"];

fn boundary() -> Vec<u32> {
    let mut b = vec![
        0, 1, 9, 0xA, 0xF, 0x10, 0x7F, 0x80, 0xFF, 0x100, 0xFFF, 0x1000, 0xABCD, 0xD7FF, 0xD800, 0xDFFF, 0xE000, 0xFFFE, 0xFFFF, 0x10000, 0x1F600, 0xAAAAA, 0xFFFFF, 0x100000, 0x10FFFE,
        0x10FFFF,
    ];
    b.sort_unstable();
    b
}

/// malformed rows: (row, reason)
pub fn malformed_rows() -> Vec<(String, &'static str)> {
    let mut v: Vec<(String, &'static str)> = Vec::new();
    let mut add = |r: &str, why: &'static str| v.push((r.to_string(), why));
    // missing fields
    add("PVALID,desc", "code point field deleted");
    add("0041,desc", "property field deleted");
    add("0041,PVALID", "description field deleted (two fields)");
    add("0041", "one field");
    add("", "empty row");
    add(",PVALID,desc", "code point emptied");
    add("0041,,desc", "property emptied");
    add("0041 PVALID desc", "no commas");
    // property corrupted
    add("0041,PVALD,desc", "property misspelt");
    add("0041,pvalid,desc", "property lower-cased");
    add("0041, PVALID,desc", "property padded left");
    add("0041,PVALID ,desc", "property padded right");
    add("0041,PVALID or,desc", "dangling or");
    add("0041,PVALID or ,desc", "dangling or with space");
    add("0041,or PVALID,desc", "leading or");
    add("0041, or PVALID,desc", "leading or with space");
    add("0041,PVALID or FOO,desc", "unknown second name");
    add("0041,FOO or PVALID,desc", "unknown first name");
    add("0041,ID_DIS or FREE_PVAL or PVALID,desc", "three names");
    add("0041,ID_DIS OR FREE_PVAL,desc", "upper-case OR");
    add("0041,ID_DISorFREE_PVAL,desc", "or without spaces");
    add("0041,ID_DIS|FREE_PVAL,desc", "wrong separator");
    // code point corrupted
    add("00G1,PVALID,desc", "non-hex letter");
    add("0x41,PVALID,desc", "0x prefix");
    add("U+0041,PVALID,desc", "U+ prefix");
    add("-0041,PVALID,desc", "leading dash");
    add("0041-,PVALID,desc", "trailing dash");
    add("0041-0042-0043,PVALID,desc", "three bounds");
    add("0041..0042,PVALID,desc", "wrong range separator");
    add("0041 - 0042,PVALID,desc", "spaces in range");
    add("110000,PVALID,desc", "above U+10FFFF");
    add("0041-110000,PVALID,desc", "range end above U+10FFFF");
    add("110000-110001,PVALID,desc", "range above U+10FFFF");
    add("FFFFFFFFFFFFFFF,PVALID,desc", "15 digits");
    add("0041-00G2,PVALID,desc", "non-hex letter in range end");
    add("00G1-0042,PVALID,desc", "non-hex letter in range start");
    for k in [9usize, 10, 12, 16, 17, 24] {
        // over-long hex whose low 32 bits would be a valid code point if high digits were dropped
        let big = format!("1{}{:04X}", "0".repeat(k.saturating_sub(5)), 0x5A);
        v.push((format!("{},PVALID,desc", big), "over-long hexadecimal code point"));
        v.push((format!("0041-{},PVALID,desc", big), "over-long hexadecimal range end"));
        v.push((format!("{}-{}B,PVALID,desc", big, &big[..big.len() - 1]), "over-long hexadecimal range"));
    }
    // long garbage made of multi-byte characters in the code point / property field, at every
    // byte phase (0..3 ASCII characters in front): an error path that cuts the field for its
    // message must not cut inside a character
    for phase in 0..4usize {
        for ch in ['\u{e9}', '\u{65e5}', '\u{ff0c}', '\u{1f600}'] {
            for n in [20usize, 32, 33, 64, 65] {
                let run: String = std::iter::repeat(ch).take(n).collect();
                let pad = "x".repeat(phase);
                v.push((format!("{}{},PVALID,desc", pad, run), "non-ASCII garbage as code point"));
                v.push((format!("{}-{},PVALID,desc", pad, run), "non-ASCII garbage as range"));
                v.push((format!("{}{}-0041,PVALID,desc", pad, run), "non-ASCII garbage as range start"));
                v.push((format!("0041,{}{},desc", pad, run), "non-ASCII garbage as property"));
                v.push((format!("0041,PVALID or {}{},desc", pad, run), "non-ASCII garbage as second property"));
            }
        }
    }
    let mut add = |r: &str, why: &'static str| v.push((r.to_string(), why));
    add(" 0041,PVALID,desc", "code point padded");
    add("0041 ,PVALID,desc", "code point padded right");
    v
}

struct Scratch {
    dir: PathBuf,
}
impl Scratch {
    fn new() -> Scratch {
        let dir = std::env::var_os("PMC_BUILD_DIR").map(PathBuf::from).unwrap_or_else(|| verif_dir().join(".build")).join("scratch").join(format!("c17-{}", std::process::id()));
        let _ = std::fs::create_dir_all(&dir);
        Scratch { dir }
    }
}
impl Drop for Scratch {
    fn drop(&mut self) {
        let _ = std::fs::remove_dir_all(&self.dir);
    }
}

#[derive(Clone)]
pub enum PoolRow {
    Good(String, RowSpec),
    Bad(String, &'static str),
}

/// one file: header + rows; eol = "\n" or "\r\n"; final_newline
pub fn check_file(path: &std::path::Path, rows: &[PoolRow], eol: &str, final_newline: bool, st: &mut Stats) {
    let mut text = String::from("Codepoint,Property,Description");
    text.push_str(eol);
    for (i, r) in rows.iter().enumerate() {
        match r {
            PoolRow::Good(s, _) => text.push_str(s),
            PoolRow::Bad(s, _) => text.push_str(s),
        }
        if i + 1 < rows.len() || final_newline {
            text.push_str(eol);
        }
    }
    if std::fs::write(path, &text).is_err() {
        st.caps_hit.push("MACHINERY: cannot write scratch file".into());
        return;
    }
    let mk = || {
        Case::new("file").x(json!({"text": text, "eol": eol, "final_newline": final_newline, "rows": rows.iter().map(|r| match r {
            PoolRow::Good(row, s) => json!({"row": row, "ok": {"start": s.start, "end": s.end, "p1": s.p1, "p2": s.p2, "desc": s.desc}}),
            PoolRow::Bad(row, w) => json!({"row": row, "bad": w}),
        }).collect::<Vec<_>>()}))
    };
    st.evaluations += 1;
    let items = guard(|| {
        let parser: CsvLineParser<std::fs::File, PrecisDerivedProperty> = CsvLineParser::from_path(path).map_err(|e| e.mesg().to_string())?;
        Ok::<Vec<Result<PrecisDerivedProperty, (Option<u64>, String)>>, String>(parser.map(|r| r.map_err(|e| (e.line(), e.mesg().to_string()))).collect())
    });
    let items = match items {
        Err(p) => {
            st.violation("panic", mk, "items".into(), format!("PANIC({})", p));
            return;
        }
        Ok(Err(e)) => {
            st.violation("file", mk, "an iterator".into(), format!("from_path failed: {}", e));
            return;
        }
        Ok(Ok(v)) => v,
    };
    // an empty trailing row text (e.g. "" as last row without newline) yields no item at all
    let mut expected: Vec<&PoolRow> = rows.iter().collect();
    if !final_newline {
        if let Some(PoolRow::Bad(s, _)) = rows.last() {
            if s.is_empty() {
                expected.pop();
            }
        }
    }
    st.traces += 1;
    if items.len() != expected.len() {
        st.violation("file_row_count", mk, format!("{} items in file order", expected.len()), format!("{} items", items.len()));
        return;
    }
    for (i, (got, exp)) in items.iter().zip(expected.iter()).enumerate() {
        let line = (i + 2) as u64;
        st.traces += 1;
        match (got, exp) {
            (Ok(v), PoolRow::Good(_, spec)) => {
                if !matches_spec(v, spec) {
                    st.violation("file_misparse", mk, format!("row {} = {:?}", i, spec_tuple(spec)), format!("{:?}", render(v)));
                }
            }
            (Err((l, _)), PoolRow::Bad(_, _)) => {
                if *l != Some(line) {
                    st.violation("file_line_number", mk, format!("error at line {}", line), format!("line {:?}", l));
                }
            }
            (Ok(v), PoolRow::Bad(_, why)) => st.violation("malformed_accepted", mk, format!("Err at line {} ({})", line, why), format!("Ok({:?})", render(v))),
            (Err((_, m)), PoolRow::Good(_, spec)) => st.violation("well_formed_rejected", mk, format!("{:?}", spec_tuple(spec)), format!("Err({})", m)),
        }
    }
    st.count(if rows.iter().any(|r| matches!(r, PoolRow::Bad(..))) { "out:file-with-errors" } else { "out:file-clean" });
    // The parser is an Iterator: every way of consuming it must deliver the items of the plain
    // `next()` sequence (same rows, same errors, same line numbers) - skip, step_by, nth, last,
    // count and a mix of next/nth all funnel into methods a parser may override.
    if items.len() >= 2 {
        let key = |r: &Result<PrecisDerivedProperty, (Option<u64>, String)>| -> String {
            match r {
                Ok(v) => format!("Ok({:?})", render(v)),
                Err((l, m)) => format!("Err(line {:?}: {})", l, m),
            }
        };
        let plain: Vec<String> = items.iter().map(key).collect();
        let open = || -> Result<CsvLineParser<std::fs::File, PrecisDerivedProperty>, String> { CsvLineParser::from_path(path).map_err(|e| e.mesg().to_string()) };
        let conv = |r: Result<PrecisDerivedProperty, precis_tools::Error>| key(&r.map_err(|e| (e.line(), e.mesg().to_string())));
        let n = plain.len();
        let mut variants: Vec<(String, Vec<String>, Result<Result<Vec<String>, String>, String>)> = Vec::new();
        for k in 0..=n + 1 {
            variants.push((format!("skip({})", k), plain.iter().skip(k).cloned().collect(), guard(|| Ok(open()?.skip(k).map(conv).collect()))));
            variants.push((
                format!("nth({}) then the rest", k),
                plain.iter().skip(k).cloned().collect(),
                guard(|| {
                    let mut p = open()?;
                    let mut v: Vec<String> = p.nth(k).into_iter().map(conv).collect();
                    v.extend(p.map(conv));
                    Ok(v)
                }),
            ));
        }
        for step in 1..=n {
            variants.push((format!("step_by({})", step), plain.iter().step_by(step).cloned().collect(), guard(|| Ok(open()?.step_by(step).map(conv).collect()))));
        }
        variants.push(("last()".into(), plain.last().cloned().into_iter().collect(), guard(|| Ok(open()?.last().into_iter().map(conv).collect()))));
        variants.push(("count()".into(), vec![n.to_string()], guard(|| Ok(vec![open()?.count().to_string()]))));
        variants.push((
            "next(), nth(1), next(), nth(1), ...".into(),
            plain.iter().enumerate().filter(|(i, _)| i % 3 != 1).map(|(_, x)| x.clone()).collect(),
            guard(|| {
                let mut p = open()?;
                let mut v = Vec::new();
                loop {
                    match p.next() {
                        Some(x) => v.push(conv(x)),
                        None => break,
                    }
                    match p.nth(1) {
                        Some(x) => v.push(conv(x)),
                        None => break,
                    }
                }
                Ok(v)
            }),
        ));
        variants.push((
            "by_ref().take(1), then the rest".into(),
            plain.clone(),
            guard(|| {
                let mut p = open()?;
                let mut v: Vec<String> = p.by_ref().take(1).map(conv).collect();
                v.extend(p.map(conv));
                Ok(v)
            }),
        ));
        for (how, exp, got) in variants {
            st.evaluations += 1;
            st.traces += 1;
            let mkv = || {
                let mut c = mk();
                if let Some(o) = c.extra.as_object_mut() {
                    o.insert("consumed_with".into(), json!(how));
                }
                c
            };
            match got {
                Err(p) => st.violation("panic", mkv, format!("{} delivers {:?}", how, exp), format!("PANIC({})", p)),
                Ok(Err(e)) => st.violation("file", mkv, "an iterator".into(), format!("from_path failed: {}", e)),
                Ok(Ok(v)) => {
                    if v != exp {
                        st.violation("file_iterator_adapter", mkv, format!("{} delivers {:?} (the items of the plain next() sequence)", how, exp), format!("{:?}", v));
                    }
                }
            }
        }
        st.count("out:file-consumed-through-adapters");
    }
}

fn pool() -> Vec<PoolRow> {
    let g = |row: &str, start: u32, end: Option<u32>, p1: usize, p2: Option<usize>, desc: &str| PoolRow::Good(row.to_string(), RowSpec { start, end, p1, p2, desc: desc.to_string() });
    let mut v = vec![
        g("0041,PVALID,LATIN CAPITAL LETTER A", 0x41, None, 0, None, "LATIN CAPITAL LETTER A"),
        g("0020,ID_DIS or FREE_PVAL,SPACE", 0x20, None, 5, Some(1), "SPACE"),
        g("0000-001F,DISALLOWED,NULL..INFORMATION SEPARATOR ONE", 0, Some(0x1F), 4, None, "NULL..INFORMATION SEPARATOR ONE"),
        g("10FFFE-10FFFF,DISALLOWED,<noncharacter>, <noncharacter>", 0x10FFFE, Some(0x10FFFF), 4, None, "<noncharacter>, <noncharacter>"),
        g("200C,CONTEXTJ,", 0x200C, None, 2, None, ""),
        g("0378-0379,UNASSIGNED,a or b,c", 0x378, Some(0x379), 6, None, "a or b,c"),
    ];
    for (r, w) in malformed_rows().into_iter().filter(|(_, w)| {
        matches!(*w, "property field deleted" | "description field deleted (two fields)" | "property misspelt" | "dangling or" | "unknown second name" | "unknown first name" | "non-hex letter" | "above U+10FFFF" | "three bounds" | "empty row" | "no commas")
    }) {
        v.push(PoolRow::Bad(r, w));
    }
    v
}

/// (4c) a line that is not valid UTF-8 (a Latin-1 description) as header and as a data row: it is
/// delivered as an error item and must not disturb order, header skipping or line numbers
/// (4d) the source is not a regular file but a named pipe (reported size 0, data arrives while
/// reading). The rows delivered must be the rows of the text, as for a regular file. (A file
/// that is still empty when the parser is constructed is NOT used: an implementation may
/// legitimately read its input when it is opened.)
pub fn check_growing_sources(st: &mut Stats) {
    let scratch = Scratch::new();
    let texts = [
        "Codepoint,Property,Description\n0041,PVALID,LATIN CAPITAL LETTER A\n0020,ID_DIS or FREE_PVAL,SPACE\n",
        "Codepoint,Property,Description\r\n0000-001F,DISALLOWED,NULL..INFORMATION SEPARATOR ONE\r\n110000,PVALID,bad\r\n200C,CONTEXTJ,",
    ];
    let read_all = |p: &std::path::Path| -> Result<Vec<String>, String> {
        let parser: CsvLineParser<std::fs::File, PrecisDerivedProperty> = CsvLineParser::from_path(p).map_err(|e| e.mesg().to_string())?;
        Ok(parser.map(|r| match r { Ok(v) => format!("Ok({:?})", render(&v)), Err(e) => format!("Err(line {:?})", e.line()) }).collect())
    };
    for (k, text) in texts.iter().enumerate() {
        // reference: the complete regular file
        let whole = scratch.dir.join(format!("whole{}.csv", k));
        if std::fs::write(&whole, text).is_err() {
            st.caps_hit.push("MACHINERY: cannot write scratch file".into());
            return;
        }
        let expected = match guard(|| read_all(&whole)) {
            Ok(Ok(v)) => v,
            _ => continue,
        };
        let mk = |how: &str| {
            let (h, t) = (how.to_string(), text.to_string());
            move || Case::new("growing_source").n(k as u64).x(json!({"how": h, "text": t}))
        };
        // a named pipe: its size is 0 when it is opened, the rows arrive while it is read
        let fifo = scratch.dir.join(format!("pipe{}", k));
        let made = std::process::Command::new("mkfifo").arg(&fifo).status().map(|s| s.success()).unwrap_or(false);
        if !made {
            st.note("no mkfifo here: the named-pipe source was skipped".into());
            continue;
        }
        st.transitions += 1;
        st.evaluations += 1;
        let (f2, t2) = (fifo.clone(), text.to_string());
        let writer = std::thread::spawn(move || {
            let _ = std::fs::write(&f2, t2);
        });
        let got = guard(|| read_all(&fifo));
        // if the reader never opened the pipe the writer is still waiting for one: release it
        let _release = std::fs::OpenOptions::new().read(true).write(true).open(&fifo);
        let _ = writer.join();
        match got {
            Ok(Ok(v)) if v == expected => {}
            other => st.violation("file_source", mk("named pipe"), format!("{:?}", expected), format!("{:?}", other)),
        }
    }
    st.count("out:growing-sources");
}

pub fn check_latin1(st: &mut Stats) {
        let scratch = Scratch::new();
        let path = scratch.dir.join("latin1.csv");
        let good1: &[u8] = b"0041,PVALID,LATIN CAPITAL LETTER A";
        let good2: &[u8] = b"200C,CONTEXTJ,";
        let bad: &[u8] = b"110000,PVALID,desc";
        let latin1_row: &[u8] = b"00F3,PVALID,LATIN SMALL LETTER O WITH ACUTE \xf3";
        let latin1_header: &[u8] = b"Codepoint,Property,Descripci\xf3n";
        let plain_header: &[u8] = b"Codepoint,Property,Description";
        // (lines, expectation per item): 'E' = some error, 'B' = error with this 1-based line number, digit = good row index
        let layouts: Vec<(Vec<&[u8]>, Vec<(char, u64)>)> = vec![
            (vec![latin1_header, good1, good2, bad], vec![('E', 1), ('1', 2), ('2', 3), ('B', 4)]),
            (vec![plain_header, good1, latin1_row, good2, bad], vec![('1', 2), ('E', 3), ('2', 4), ('B', 5)]),
            (vec![plain_header, latin1_row, bad, good1], vec![('E', 2), ('B', 3), ('1', 4)]),
        ];
        for (lines, expect) in layouts {
            for eol in [&b"\n"[..], &b"\r\n"[..]] {
                let mut bytes: Vec<u8> = Vec::new();
                for l in &lines {
                    bytes.extend_from_slice(l);
                    bytes.extend_from_slice(eol);
                }
                let _ = std::fs::write(&path, &bytes);
                st.states += 1;
                st.transitions += 1;
                st.evaluations += 1;
                st.traces += 1;
                st.nontrivial += 1;
                let items = guard(|| CsvLineParser::<std::fs::File, PrecisDerivedProperty>::from_path(&path).map(|p| p.map(|r| r.map(|v| render(&v)).map_err(|e| e.line())).collect::<Vec<_>>()));
                let mk = || Case::new("latin1").x(json!({"bytes": bytes, "expect": expect.iter().map(|(c, n)| format!("{}{}", c, n)).collect::<Vec<_>>()}));
                let items = match items {
                    Ok(Ok(v)) => v,
                    other => {
                        st.violation("latin1", mk, "an item per line".into(), format!("{:?}", other.map(|r| r.map(|v| v.len()).map_err(|e| e.mesg().to_string()))));
                        continue;
                    }
                };
                let mut ok = items.len() == expect.len();
                if ok {
                    for (it, (kind, n)) in items.iter().zip(expect.iter()) {
                        ok &= match (kind, it) {
                            ('E', Err(_)) => true,
                            ('B', Err(l)) => *l == Some(*n),
                            ('1', Ok(v)) => v.0 == 0x41,
                            ('2', Ok(v)) => v.0 == 0x200C,
                            _ => false,
                        };
                    }
                }
                if !ok {
                    st.violation(
                        "latin1",
                        mk,
                        format!("items {:?} (E = an error for the undecodable line, B<n> = error carrying line n, 1/2 = the well-formed rows, in file order)", expect.iter().map(|(c, n)| format!("{}{}", c, n)).collect::<Vec<_>>()),
                        format!("{:?}", items.iter().map(|i| match i { Ok(v) => format!("Ok({:04X})", v.0), Err(l) => format!("Err(line {:?})", l) }).collect::<Vec<_>>()),
                    );
                }
            }
        }
        let _ = std::fs::remove_file(&path);
}

pub fn run(_env: &Env, run: &Run) -> (Stats, Coverage) {
    let mut st = Stats::default();
    let props = prop_fields();
    // (1) every code point as a single-row, rotating property field and description
    let chunks: Vec<u32> = (0..0x110000u32).step_by(0x1000).collect();
    let shards: Vec<Stats> = chunks
        .par_iter()
        .map(|&base| {
            let mut st = Stats::default();
            for cp in base..base + 0x1000 {
                st.states += 1;
                for (k, h) in hexes(cp).iter().enumerate() {
                    st.transitions += 1;
                    let (pf, p1, p2) = &props[(cp as usize + k) % props.len()];
                    let d = DESCS[(cp as usize / 7 + k) % DESCS.len()];
                    let row = format!("{},{},{}", h, pf, d);
                    check_row_ok(&row, &RowSpec { start: cp, end: None, p1: *p1, p2: *p2, desc: d.to_string() }, &mut st);
                }
            }
            st
        })
        .collect();
    for s in shards {
        st.merge(s);
    }
    // (2) every range over the boundary set x every property field x every description
    let b = boundary();
    let mut ranges = Vec::new();
    for (i, s) in b.iter().enumerate() {
        for e in &b[i..] {
            ranges.push((*s, *e));
        }
    }
    let shards: Vec<Stats> = ranges
        .par_iter()
        .map(|&(s, e)| {
            let mut st = Stats::default();
            st.states += 1;
            for (pf, p1, p2) in &props {
                for d in DESCS {
                    st.transitions += 1;
                    let row = format!("{:04X}-{:04X},{},{}", s, e, pf, d);
                    check_row_ok(&row, &RowSpec { start: s, end: Some(e), p1: *p1, p2: *p2, desc: d.to_string() }, &mut st);
                    st.nontrivial += 1;
                }
            }
            st
        })
        .collect();
    for s in shards {
        st.merge(s);
    }
    // (3) malformed rows, each alone and with every well-formed description appended
    for (row, why) in malformed_rows() {
        st.states += 1;
        st.transitions += 1;
        check_row_bad(&row, why, &mut st);
    }
    // corrupt each of the three fields of every boundary row systematically
    for &cp in &b {
        for (pf, _, _) in props.iter().step_by(5) {
            let good = format!("{:04X},{},desc", cp, pf);
            let fields: Vec<&str> = good.splitn(3, ',').collect();
            st.states += 1;
            for (row, why) in [
                (format!("{},{}", fields[1], fields[2]), "code point field deleted"),
                (format!("{},{}", fields[0], fields[2]), "property field deleted"),
                (format!("{},{}", fields[0], fields[1]), "description field deleted"),
                (format!("{}Z,{},{}", fields[0], fields[1], fields[2]), "code point corrupted"),
                (format!("{},{}X,{}", fields[0], fields[1], fields[2]), "property corrupted"),
                (format!("{},x{},{}", fields[0], fields[1], fields[2]), "property corrupted"),
                (format!("{},{},{}", fields[0], fields[1].to_lowercase(), fields[2]), "property lower-cased"),
            ] {
                st.transitions += 1;
                check_row_bad(&row, why, &mut st);
            }
        }
    }
    // (4) files of up to 3 rows over a pool of well-formed and malformed rows
    let pool = pool();
    let maxrows = run.tier.pick(3, 4);
    let mut files: Vec<Vec<usize>> = vec![vec![]];
    let mut frontier: Vec<Vec<usize>> = vec![vec![]];
    for _ in 0..maxrows {
        let mut next = Vec::new();
        for f in &frontier {
            for i in 0..pool.len() {
                let mut g = f.clone();
                g.push(i);
                next.push(g);
            }
        }
        files.extend(next.iter().cloned());
        frontier = next;
    }
    let scratch = Scratch::new();
    let nfiles = files.len();
    let shards: Vec<Stats> = files
        .par_chunks(64)
        .enumerate()
        .map(|(ci, chunk)| {
            let mut st = Stats::default();
            let path = scratch.dir.join(format!("f{}.csv", ci));
            for f in chunk {
                let rows: Vec<PoolRow> = f.iter().map(|i| pool[*i].clone()).collect();
                st.states += 1;
                for eol in ["\n", "\r\n"] {
                    for fin in [true, false] {
                        st.transitions += 1;
                        check_file(&path, &rows, eol, fin, &mut st);
                        if rows.len() >= 2 {
                            st.nontrivial += 1;
                        }
                    }
                }
            }
            let _ = std::fs::remove_file(&path);
            st
        })
        .collect();
    for s in shards {
        st.merge(s);
    }
    // (4b) very long descriptions, as single rows and inside files (line-length limits, buffers)
    {
        let scratch = Scratch::new();
        let path = scratch.dir.join("long.csv");
        let mut lens = vec![255usize, 256, 1023, 1024, 4000, 4081, 4082, 4083, 4084, 4095, 4096, 4097, 8191, 8192, 8193, 65535, 65536, 70000];
        // around 2^20 and 2^21 (read limits), thorough also 2^24
        lens.extend([(1 << 20) - 40, (1 << 20) - 1, 1 << 20, (1 << 20) + 1, (1 << 21) + 3]);
        if run.tier == Tier::Thorough {
            lens.extend([(1 << 24) - 1, (1 << 24) + 1]);
        }
        for n in lens {
            // megabyte rows legitimately take a while on a loaded machine
            crate::watch::with_allowance(if n > (1 << 19) { 60 + 30 * (n as u64 >> 20) } else { 0 }, || {
            for filler in ["x", "\u{e9}", "a, b"] {
                let desc: String = filler.repeat(n / filler.len() + 1).chars().take(n).collect();
                let row = format!("0041-005A,ID_DIS or FREE_PVAL,{}", desc);
                let spec = RowSpec { start: 0x41, end: Some(0x5A), p1: 5, p2: Some(1), desc: desc.clone() };
                st.states += 1;
                st.transitions += 1;
                check_row_ok(&row, &spec, &mut st);
                let rows = vec![
                    PoolRow::Good("0020,ID_DIS or FREE_PVAL,SPACE".into(), RowSpec { start: 0x20, end: None, p1: 5, p2: Some(1), desc: "SPACE".into() }),
                    PoolRow::Good(row.clone(), spec.clone()),
                    PoolRow::Bad("110000,PVALID,desc".into(), "above U+10FFFF"),
                    PoolRow::Good("200C,CONTEXTJ,".into(), RowSpec { start: 0x200C, end: None, p1: 2, p2: None, desc: "".into() }),
                ];
                for eol in ["\n", "\r\n"] {
                    st.transitions += 1;
                    check_file(&path, &rows, eol, true, &mut st);
                    st.nontrivial += 1;
                }
            }
            });
        }
        let _ = std::fs::remove_file(&path);
    }
    // (4b') a 2-, 3- or 4-byte character of a description at every byte phase around the offsets
    // at which a block-wise reader refills its buffer (4 KiB .. 64 KiB and the multiples of 8 KiB
    // up to 32 KiB): reached by one long row, and by many short rows. A reader that decodes
    // block by block must carry a character cut by the refill over to the next block.
    {
        let scratch = Scratch::new();
        let path = scratch.dir.join("blocks.csv");
        let first = "0020,ID_DIS or FREE_PVAL,SPACE";
        let prefix = "0041-005A,ID_DIS or FREE_PVAL,";
        let short = "0061,PVALID,LATIN SMALL LETTER A - filler row of sixty-four bytes .....";
        let short_spec = RowSpec { start: 0x61, end: None, p1: 0, p2: None, desc: short[12..].to_string() };
        let mut n_files = 0u64;
        for b in [4096usize, 8192, 16384, 24576, 32768, 65536] {
            for ch in ['\u{e9}', '\u{65e5}', '\u{10400}'] {
                for d in 0..=4usize {
                    for eol in ["\n", "\r\n"] {
                        for many in [false, true] {
                            if many && b > 8192 {
                                continue; // check_file is quadratic in the number of rows
                            }
                            let mut rows = vec![PoolRow::Good(first.into(), RowSpec { start: 0x20, end: None, p1: 5, p2: Some(1), desc: "SPACE".into() })];
                            let mut used = "Codepoint,Property,Description".len() + eol.len() + first.len() + eol.len(); // check_file writes the header first
                            if many {
                                while used + short.len() + eol.len() + prefix.len() + 8 < b - d {
                                    rows.push(PoolRow::Good(short.into(), short_spec.clone()));
                                    used += short.len() + eol.len();
                                }
                            }
                            let k = (b - d).saturating_sub(used + prefix.len());
                            let desc = format!("{}{}{}yy", "x".repeat(k), ch, ch);
                            let row = format!("{}{}", prefix, desc);
                            rows.push(PoolRow::Good(row, RowSpec { start: 0x41, end: Some(0x5A), p1: 5, p2: Some(1), desc }));
                            rows.push(PoolRow::Good("200C,CONTEXTJ,".into(), RowSpec { start: 0x200C, end: None, p1: 2, p2: None, desc: "".into() }));
                            st.states += 1;
                            st.transitions += 1;
                            n_files += 1;
                            check_file(&path, &rows, eol, true, &mut st);
                        }
                    }
                }
            }
        }
        st.add("block_boundary_files", n_files);
        let _ = std::fs::remove_file(&path);
    }
    // (4c) undecodable lines
    check_latin1(&mut st);
    // (4d) sources that are not finished regular files
    check_growing_sources(&mut st);
    // (5b) the repository's own copy of the registry (the oracle of its derived-property test):
    // noted, not judged, when it no longer is the pinned file
    {
        let repo_csv = crate::ucd::repo_dir().join("precis-core/resources/csv/precis-tables-6.3.0.csv");
        let pinned = verif_dir().join("data/csv/precis-tables-6.3.0.csv");
        if std::fs::read(&repo_csv).ok() != std::fs::read(&pinned).ok() {
            st.note("the repository's precis-tables-6.3.0.csv differs from the pinned IANA file: its own derived-property test no longer checks what it appears to check (fixture problem, not a parser verdict)".into());
        }
    }
    // (5) the real registry file, row by row, against the harness's own reader
    {
        let path = verif_dir().join("data/csv/precis-tables-6.3.0.csv");
        let text = std::fs::read_to_string(&path).unwrap_or_default();
        let items = guard(|| {
            CsvLineParser::<std::fs::File, PrecisDerivedProperty>::from_path(&path).map(|p| p.collect::<Vec<_>>())
        });
        let lines: Vec<&str> = text.lines().skip(1).collect();
        match items {
            Ok(Ok(items)) => {
                st.evaluations += 1;
                if items.len() != lines.len() {
                    st.violation("registry_rows", || Case::new("registry_file"), format!("{} rows", lines.len()), format!("{} items", items.len()));
                }
                for (it, line) in items.iter().zip(lines.iter()) {
                    st.states += 1;
                    st.transitions += 1;
                    st.traces += 1;
                    let f: Vec<&str> = line.splitn(3, ',').collect();
                    let ok = match it {
                        Ok(v) => {
                            let (s, e, a, b, d) = render(v);
                            let cps = match e {
                                Some(e) => format!("{:04X}-{:04X}", s, e),
                                None => format!("{:04X}", s),
                            };
                            let props = match b {
                                Some(b) => format!("{} or {}", a, b),
                                None => a,
                            };
                            f.len() == 3 && cps == f[0] && props == f[1] && strip_eol(&d) == f[2]
                        }
                        Err(_) => false,
                    };
                    if !ok {
                        st.violation("registry_row", || Case::new("registry_file").s(line), line.to_string(), format!("{:?}", it.as_ref().map(render).map_err(|e| e.mesg().to_string())));
                    }
                }
            }
            other => st.violation("registry_file", || Case::new("registry_file"), "items".into(), format!("{:?}", other.map(|r| r.map(|v| v.len()).map_err(|e| e.mesg().to_string())))),
        }
    }
    st.sample(json!({"row": "0378-0379,UNASSIGNED,a or b,c", "expected": "Range(0x378..0x379), Single(Unassigned), description 'a or b,c'"}));
    st.sample(json!({"row": "0041,PVALID or,desc", "expected": "Err"}));
    st.sample(json!({"file": "header, good, bad(above U+10FFFF), good (CRLF, no final newline)", "expected": "Ok, Err with line()=3, Ok - in file order"}));
    let cov = Coverage {
        rule: format!("grammar enumeration: (1) every code point 0..=0x10FFFF as a single-code-point row in 4/5/6-digit upper-case hex, property field and description rotating over all {} property fields (7 names + 49 ordered pairs x 3 spacings) and {} descriptions (empty, commas, ' or ', trailing CR); (2) every range start<=end over {} boundary values x every property field x every description; (3) {} hand-listed malformed rows + systematic deletion/corruption of each field of boundary rows; (4) every file of <= {} rows over a pool of {} rows (6 well-formed, rest malformed) x LF/CRLF x with/without final newline through CsvLineParser::from_path: items in file order, error line() = 1-based line; (4b) descriptions of 255..70000 bytes and around 2^20, 2^21 (thorough: 2^24) bytes as single rows and inside 4-row files; (4c) files whose header or one data row is not valid UTF-8; (4d) the same text through a named pipe; (5) the real IANA file row by row; expected values are known by construction; non-trivial = range rows, malformed rows, multi-row files", props.len(), DESCS.len(), b.len(), malformed_rows().len(), maxrows, pool.len()),
        alphabet: json!({"names": NAMES, "descriptions": DESCS, "boundary": b.iter().map(|v| format!("{:04X}", v)).collect::<Vec<_>>()}),
        bound_completed: format!("1,114,112 code points x up to 3 spellings; {} ranges x {} x {}; {} files x 4 layouts", ranges.len(), props.len(), DESCS.len(), nfiles),
        exhaustive: false,
        assumptions: vec!["reversed ranges, '+'-prefixed and lower-case hex are not in the malformed set (the statement does not call them malformed) and are not tested either way".into()],
        extra: json!({}),
    };
    (st, cov)
}

pub fn replay(_env: &Env, case: &Case) -> Vec<Violation> {
    let mut st = Stats::default();
    match case.op.as_str() {
        "row_ok" => {
            let x = &case.extra;
            let spec = RowSpec {
                start: x["start"].as_u64().unwrap_or(0) as u32,
                end: x["end"].as_u64().map(|v| v as u32),
                p1: x["p1"].as_u64().unwrap_or(0) as usize,
                p2: x["p2"].as_u64().map(|v| v as usize),
                desc: x["desc"].as_str().unwrap_or("").to_string(),
            };
            check_row_ok(&case.str_at(0), &spec, &mut st);
        }
        "growing_source" => {
            let mut all = Stats::default();
            check_growing_sources(&mut all);
            st.violations = all.violations.into_iter().filter(|v| v.case.nums == case.nums && v.case.extra["how"] == case.extra["how"]).collect();
        }
        "row_bad" => check_row_bad(&case.str_at(0), "replayed", &mut st),
        "latin1" => {
            // re-run the whole (tiny) family and keep the violation with the same bytes
            let mut all = Stats::default();
            check_latin1(&mut all);
            st.violations = all.violations.into_iter().filter(|v| v.case.extra["bytes"] == case.extra["bytes"]).collect();
        }
        "file" => {
            let scratch = Scratch::new();
            let path = scratch.dir.join("replay.csv");
            let mut rows: Vec<PoolRow> = Vec::new();
            for r in case.extra["rows"].as_array().cloned().unwrap_or_default() {
                let row = r["row"].as_str().unwrap_or("").to_string();
                if let Some(x) = r.get("ok") {
                    rows.push(PoolRow::Good(
                        row,
                        RowSpec {
                            start: x["start"].as_u64().unwrap_or(0) as u32,
                            end: x["end"].as_u64().map(|v| v as u32),
                            p1: x["p1"].as_u64().unwrap_or(0) as usize,
                            p2: x["p2"].as_u64().map(|v| v as usize),
                            desc: x["desc"].as_str().unwrap_or("").to_string(),
                        },
                    ));
                } else {
                    let why: &'static str = Box::leak(r["bad"].as_str().unwrap_or("").to_string().into_boxed_str());
                    rows.push(PoolRow::Bad(row, why));
                }
            }
            let eol = if case.extra["eol"].as_str() == Some("\r\n") { "\r\n" } else { "\n" };
            check_file(&path, &rows, eol, case.extra["final_newline"].as_bool().unwrap_or(true), &mut st);
        }
        _ => {}
    }
    st.violations
}
