//! C06 - Nickname enforcement applies RFC 8266 rules until the string is stable.

use crate::engine::*;
use crate::env::Env;
use crate::pipeline::*;
use crate::props::c04::{check_op, check_relations, count_outcome};
use crate::subject::{enforce, from_cps, Op, Out, Prof};
use serde_json::json;

pub fn sigma06() -> Vec<char> {
    [
        0x20u32, 0xA0, 0x3000, 0x2002, // ASCII space, Zs of 2/3/3 bytes
        0x61, 0x41, 0xE9, 0x65E5, 0x10400, // letters of 1,1,2,3,4 bytes; case must be preserved
        0xA8, 0xFDFA, // NFKC introduces a leading space / interior spaces: more rounds
        0x2163, 0xAA, 0x2474, 0xFF21, // other compatibility characters
        0x301, 0x1C5, // mark, titlecase
        0x09, 0x378, // disallowed, unassigned
        0x3131, // compat jamo: NFKC gives U+1100, which re-validation must reject
        0x334,  // combining overlay (ccc 1, NFKC_QC=Yes): between a base and a composing mark
    ]
    .iter()
    .map(|c| char::from_u32(*c).unwrap())
    .collect()
}

pub fn sigma_space() -> Vec<char> {
    [0x20u32, 0xA0, 0x2003, 0x3000, 0x61, 0xE9, 0x65E5, 0x10400]
        .iter()
        .map(|c| char::from_u32(*c).unwrap())
        .collect()
}

/// every accepted result is a fixed point of the nickname rules
pub fn check_fixed_point(env: &Env, s: &str, st: &mut Stats) {
    if let Out::Ok(e) = enforce(Prof::Nick, s) {
        st.evaluations += 2;
        st.traces += 1;
        let again = enforce(Prof::Nick, &e);
        let round = nick_round(env, &e);
        if again != Out::Ok(e.clone()) || round.primary != Out::Ok(e.clone()) {
            st.violation(
                "not_fixed_point",
                || Case::new("fixed_point").s(s).x(json!("Nickname")),
                format!("enforce(e)=Ok(e) and one reference application leaves e unchanged, e={}", crate::subject::show(&e)),
                format!("enforce(e)={} rules(e)={}", show_out(&again), show_out(&round.primary)),
            );
        }
    }
}

fn visit(env: &Env, s: &str, st: &mut Stats) {
    let p = Prof::Nick;
    let e1 = check_op(env, p, Op::Prepare, s, st);
    let e2 = check_op(env, p, Op::Enforce, s, st);
    count_outcome(&e2, s, st);
    let (_, rounds) = iterate(env, s, nick_round);
    st.count(&format!("rounds:{}", rounds));
    if rounds >= 2 {
        st.nontrivial += 1;
    }
    check_fixed_point(env, s, st);
    if !matches!(e1.primary, Out::Ok(_)) {
        check_relations(env, p, s, st);
    }
}

pub fn run(env: &Env, run: &Run) -> (Stats, Coverage) {
    let sigma = crate::sig::rotated(env, sigma06(), run.seed);
    let n = run.tier.pick(4, 5);
    let mut st = strtree(&sigma, n, |_c, s, st| visit(env, s, st));
    let sp = crate::sig::rotated(env, sigma_space(), run.seed);
    let n2 = run.tier.pick(6, 8);
    st.merge(strtree(&sp, n2, |_c, s, st| visit(env, s, st)));
    st.merge(cpsweep(|c, st| {
        let x = c as u32;
        for l in [vec![x], vec![0x20, x], vec![x, 0x20], vec![0x61, x, 0x20, 0x62], vec![0xA8, x], vec![0xE9, x, 0x3000, 0x41], vec![x, x], vec![0x61, x, 0x334], vec![0x6C, 0xB7, 0x6C, x], vec![x, 0x6C, 0xB7, 0x6C], vec![0x915, x, 0x94D, 0x200D], vec![0x30A2, 0x30FB, x]] {
            let s = from_cps(&l);
            visit(env, &s, st);
        }
        for a in alias_chars(c) {
            visit(env, &from_cps(&[x, a as u32]), st);
        }
    }));

    // structural families: pumped runs a^k b / b a^k / a^k b a (k around 8, 16, 32, 64 and, for a
    // few symbols, 128..1025) every ASCII character at every offset of 7..33-byte
    // ASCII strings (two fillers), alphabet symbols alone and in pairs inside 16..41-byte ASCII strings,
    // all of them at every address residue modulo 8 / 16 (sub-slices of a larger buffer)
    st.merge(run_structural(&sigma, run.tier, |s, st| visit(env, s, st)));
    let dfam = crate::props::rules::decomposition_family(env);
    st.merge(run_family(&dfam, |s, st| visit(env, s, st)));
    let stairs = crate::props::rules::block_staircases(env, crate::subject::Class::Freeform);
    st.merge(run_family(&stairs, |s, st| visit(env, s, st)));
    let max_rounds = (1..=4).rev().find(|r| st.counters.get(&format!("rounds:{}", r)).copied().unwrap_or(0) > 0).unwrap_or(0);
    st.sample(json!({"input": ["U+00A8", "a"], "expected": "round 1: NFKC gives ' ' U+0308 a; round 2 trims the space: 'U+0308 a'; round 3 confirms"}));
    st.sample(json!({"input": ["U+00E9", " ", " ", "b"], "expected": "Ok(\"U+00E9 b\") - interior run collapses to one space next to a 2-byte character"}));
    st.sample(json!({"input": ["U+3131"], "expected": "Err(BadCodepoint{0x1100,0,Disallowed}) from the second round's validation"}));
    // returned-buffer histories: enforce(a) hands out an owned String; the caller refills that very
    // buffer with another nickname of the same byte length and enforces it
    {
        let hs: Vec<char> = [0x61u32, 0x20, 0xE9, 0xFB01, 0x2122, 0xAA, 0x3000, 0x65E5].iter().map(|c| char::from_u32(*c).unwrap()).collect();
        let strs = all_strings(&hs, 3);
        st.merge(returned_buffer_histories(&strs, |a| crate::subject::enforce_owned(Prof::Nick, a), |s, st| {
            check_op(env, Prof::Nick, Op::Enforce, s, st);
        }));
    }
    let cov = Coverage {
        rule: format!("every string of length <= {} over a 21-symbol alphabet (spaces of 1-3 bytes, letters of 1-4 bytes, characters whose NFKC form introduces spaces or needs re-validation) and of length <= {} over 8 space/length symbols, + pumped runs and ASCII block strings + every scalar value in 7 templates and next to each of its 16 other-plane aliases; oracle = RFC 8264 s.7 iteration of (non-empty -> FreeformClass -> Zs to space/trim/collapse -> NFKC -> non-empty); every accepted result is re-enforced and re-run through one reference application (fixed point); non-trivial = inputs needing at least two applications", n, n2),
        alphabet: json!({"general": sigma.iter().map(|c| format!("U+{:04X}", *c as u32)).collect::<Vec<_>>(), "space": sp.iter().map(|c| format!("U+{:04X}", *c as u32)).collect::<Vec<_>>()}),
        bound_completed: format!("length <= {} ({} strings) and <= {} ({} strings); sweep 1,112,064 x 7", n, tree_size(sigma.len(), n), n2, tree_size(sp.len(), n2)),
        exhaustive: false,
        assumptions: vec!["unicode-normalization's nfkc() iterator is the trusted normaliser".into()],
        extra: json!({"max_applications_needed_by_any_accepted_or_rejected_input": max_rounds}),
    };
    (st, cov)
}

pub fn replay(env: &Env, case: &Case) -> Vec<Violation> {
    if case.op == "fixed_point" {
        let mut st = Stats::default();
        check_fixed_point(env, &case.str_at(0), &mut st);
        return st.violations;
    }
    crate::props::c04::replay_ops(env, case)
}
