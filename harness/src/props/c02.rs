//! C02 - a string class accepts a label iff every code point is valid in its context.

use crate::engine::*;
use crate::env::Env;
use crate::refmodel::{ref_allows, reject_matches, AllowsExpect};
use crate::subject::{allows, from_cps, guard, Class, OutU, DP, E};
use precis_core::{DerivedPropertyValue, StringClass};
use rayon::prelude::*;
use serde_json::json;

fn show_exp(e: &AllowsExpect) -> String {
    match e {
        AllowsExpect::Accept => "Ok(())".into(),
        AllowsExpect::Reject { cp, idx, dp, undefined_ok, no_rule } => format!(
            "Err(BadCodepoint{{cp:{:#06x}, position:{}, property:{:?}}}){}{}",
            cp,
            idx,
            dp,
            if *undefined_ok { " or Err(Unexpected(Undefined))" } else { "" },
            if *no_rule { " or a missing/inapplicable-rule error naming that code point" } else { "" }
        ),
    }
}

fn judge(exp: &AllowsExpect, got: &OutU) -> bool {
    match (exp, got) {
        (AllowsExpect::Accept, OutU::Ok) => true,
        (AllowsExpect::Reject { .. }, OutU::Err(e)) => reject_matches(exp, e),
        _ => false,
    }
}

pub fn check_std(env: &Env, class: Class, l: &[u32], s: &str, st: &mut Stats) -> AllowsExpect {
    let got = allows(class, s);
    let exp = ref_allows(&env.u63, |cp| env.dpt.get(class, char::from_u32(cp).unwrap()), l);
    st.evaluations += 1;
    st.traces += 1;
    if !judge(&exp, &got) {
        let kind = match &got {
            OutU::Panic(_) => "panic",
            OutU::Err(E::MissingRule(..)) | OutU::Err(E::CtxNotApplicable(..)) => "std_class_rule_error",
            _ => "allows",
        };
        st.violation(
            kind,
            || Case::new("allows").cps(l).x(json!(format!("{:?}", class))),
            show_exp(&exp),
            format!("{:?}", got),
        );
    }
    exp
}

/// user-supplied class: fixed assignment over a handful of symbols
pub struct UserClass {
    pub map: Vec<(u32, DP)>,
    /// a class whose classifier itself validates a label (re-entrant use of `allows`)
    pub reentrant: bool,
}

impl StringClass for UserClass {
    fn get_value_from_char(&self, c: char) -> DerivedPropertyValue {
        if self.reentrant {
            // a nested validation of a label with contextual code points, on the same thread
            let _ = precis_core::FreeformClass::default().allows("l\u{b7}l\u{200d}");
            let _ = precis_core::IdentifierClass::default().allows("\u{30a2}\u{30fb}");
        }
        self.get_value_from_codepoint(c as u32)
    }
    fn get_value_from_codepoint(&self, cp: u32) -> DerivedPropertyValue {
        self.map
            .iter()
            .find(|(c, _)| *c == cp)
            .map(|(_, d)| d.to_impl())
            .unwrap_or(DerivedPropertyValue::Unassigned)
    }
}

pub const USER_SYMS: [u32; 5] = [0x6C, 0xB7, 0x94D, 0x200D, 0x10400];
/// second symbol set: the rules that look at the WHOLE label (both digit families, katakana dot)
pub const USER_SYMS_2: [u32; 5] = [0x660, 0x6F0, 0x30FB, 0x30A2, 0x61];

fn user_syms(set: u8) -> &'static [u32; 5] {
    if set == 0 {
        &USER_SYMS
    } else {
        &USER_SYMS_2
    }
}

pub fn check_user(env: &Env, assign: &[DP], l: &[u32], st: &mut Stats) {
    check_user_set(env, 0, assign, l, st)
}

pub fn check_user_set(env: &Env, set: u8, assign: &[DP], l: &[u32], st: &mut Stats) {
    check_user_variant(env, set, assign, l, false, st);
    // labels with two or more contextual code points also through the re-entrant class
    let nctx = l.iter().filter(|c| **c == 0xB7 || **c == 0x200D).count();
    if nctx >= 2 {
        check_user_variant(env, set, assign, l, true, st);
    }
}

pub fn check_user_variant(env: &Env, set: u8, assign: &[DP], l: &[u32], reentrant: bool, st: &mut Stats) {
    let uc = UserClass {
        map: user_syms(set).iter().copied().zip(assign.iter().copied()).collect(),
        reentrant,
    };
    let s = from_cps(l);
    let got = match guard(|| uc.allows(&s)) {
        Ok(Ok(())) => OutU::Ok,
        Ok(Err(e)) => OutU::Err(E::from_impl(&e)),
        Err(p) => OutU::Panic(p),
    };
    let exp = ref_allows(
        &env.u63,
        |cp| uc.map.iter().find(|(c, _)| *c == cp).map(|(_, d)| *d).unwrap_or(DP::Unassigned),
        l,
    );
    st.evaluations += 1;
    st.traces += 1;
    if !judge(&exp, &got) {
        st.violation(
            if matches!(got, OutU::Panic(_)) { "panic" } else if reentrant { "user_class_reentrant" } else { "user_class" },
            || Case::new(if reentrant { "user_reentrant" } else { "user" }).cps(l).n(set as u64).x(json!(assign.iter().map(|d| DP::ALL.iter().position(|x| x == d).unwrap()).collect::<Vec<_>>())),
            show_exp(&exp),
            format!("{:?}", got),
        );
    }
    match &exp {
        AllowsExpect::Accept => st.count("out:user-accept"),
        AllowsExpect::Reject { no_rule: true, .. } => st.count("out:user-reject-no-rule"),
        AllowsExpect::Reject { undefined_ok: true, .. } => st.count("out:user-reject-boundary"),
        AllowsExpect::Reject { .. } => st.count("out:user-reject"),
    }
}

pub fn sigma02() -> Vec<char> {
    [
        0x61u32, 0x6C, 0xE9, // PVALID: a, l, e-acute (2 bytes)
        0x20, 0xA8, 0x221E, // ID_DIS / FREE_PVAL: space, diaeresis (HasCompat), infinity (3 bytes)
        0x09, 0x378, // DISALLOWED control, UNASSIGNED
        0x200C, 0x200D, // CONTEXTJ
        0xB7, 0x375, 0x5F3, 0x30FB, 0x660, 0x6F0, // CONTEXTO families
        0x94D, 0x3B1, 0x5D0, 0x3042, 0x626, 0x629, 0xA872, 0x5BF, // enablers: virama, Greek, Hebrew, Hiragana, D, R, L, T
        0x10428, // 4-byte PVALID letter
        0x644, 0x6CC, // letters sharing the UTF-8 lead byte of U+0660.. (D9) and of U+06F0.. (DB)
    ]
    .iter()
    .map(|c| char::from_u32(*c).unwrap())
    .collect()
}

fn classify(exp: &AllowsExpect, l: &[u32], st: &mut Stats, env: &Env, class: Class) {
    match exp {
        AllowsExpect::Accept => st.count("out:accept"),
        AllowsExpect::Reject { undefined_ok: true, .. } => st.count("out:reject-contextual-at-boundary"),
        AllowsExpect::Reject { dp, .. } if dp.is_contextual() => st.count("out:reject-contextual"),
        AllowsExpect::Reject { .. } => st.count("out:reject"),
    }
    let has_ctx = l.iter().any(|c| env.dpt.get(class, char::from_u32(*c).unwrap()).is_contextual());
    let late_multibyte = matches!(exp, AllowsExpect::Reject { idx, .. } if *idx >= 1 && l[..*idx].iter().any(|c| *c > 0x7F));
    if has_ctx || late_multibyte {
        st.nontrivial += 1;
    }
}

pub fn run(env: &Env, run: &Run) -> (Stats, Coverage) {
    let mut st = Stats::default();
    let sigma = crate::sig::rotated(env, sigma02(), run.seed);
    let n = run.tier.pick(5, 6);
    // standard classes, string tree
    st.merge(strtree(&sigma, n, |chars, s, st| {
        let l: Vec<u32> = chars.iter().map(|c| *c as u32).collect();
        for class in [Class::Identifier, Class::Freeform] {
            let exp = check_std(env, class, &l, s, st);
            classify(&exp, &l, st, env, class);
        }
    }));
    let long_all = run.tier == Tier::Thorough;
    // standard classes, every scalar value in five positions
    st.merge(cpsweep(|c, st| {
        let x = c as u32;
        for l in [vec![x], vec![0x61, x], vec![x, 0x61], vec![0xE9, x], vec![0x10428, x, 0x61], vec![0x6C, x, 0x6C], vec![0x94D, x], vec![x, 0x200D], vec![x, 0x200C, 0x626], vec![0x626, 0x200C, x], vec![0x626, 0x200C, x, 0x626], vec![0x626, x, 0x200C, 0x626], vec![0x375, x], vec![x, 0x5F3], vec![x, 0x30FB], vec![x, 0xB7, x], vec![x, 0x200D, x]] {
            let s = from_cps(&l);
            for class in [Class::Identifier, Class::Freeform] {
                let exp = check_std(env, class, &l, &s, st);
                classify(&exp, &l, st, env, class);
            }
        }
        for a in alias_chars(c) {
            let l = vec![x, a as u32];
            let s = from_cps(&l);
            for class in [Class::Identifier, Class::Freeform] {
                check_std(env, class, &l, &s, st);
            }
            // far apart / behind a long prefix (per-call memo tables that are only used for long
            // labels): the aliases in planes 1, 2 and 16 (thorough: all), where the two are
            // classified differently
            let d = (a as u32) ^ x;
            if (long_all || d == 0x10000 || d == 0x20000 || d == 0x100000) && x < a as u32 {
                for class in [Class::Identifier, Class::Freeform] {
                    if env.dpt.get(class, c) != env.dpt.get(class, a) {
                        for (i, s) in long_pair_strings(c, a).into_iter().enumerate() {
                            if i % 3 == 2 {
                                continue;
                            }
                            let l: Vec<u32> = s.chars().map(|c| c as u32).collect();
                            check_std(env, class, &l, &s, st);
                        }
                    }
                }
            }
        }
    }));

    // structural families: pumped runs a^k b / b a^k / a^k b a (k around 8, 16, 32, 64 and, for a
    // few symbols, 128..1025) every ASCII character at every offset of 7..33-byte
    // ASCII strings (two fillers), alphabet symbols alone and in pairs inside 16..41-byte ASCII strings,
    // all of them at every address residue modulo 8 / 16 (sub-slices of a larger buffer)
    st.merge(run_structural(&sigma, run.tier, |s, st| {
        let l: Vec<u32> = s.chars().map(|c| c as u32).collect();
        for class in [Class::Identifier, Class::Freeform] {
            let exp = check_std(env, class, &l, s, st);
            classify(&exp, &l, st, env, class);
        }
    }));
    // diverse strings: up to 64 different accepted characters of one 64-block, per class
    for class in [Class::Identifier, Class::Freeform] {
        let stairs = crate::props::rules::block_staircases(env, class);
        st.merge(run_family(&stairs, |s, st| {
            let l: Vec<u32> = s.chars().map(|c| c as u32).collect();
            for class in [Class::Identifier, Class::Freeform] {
                let exp = check_std(env, class, &l, s, st);
                classify(&exp, &l, st, env, class);
            }
        }));
    }
    // user-supplied classes: all assignments of the 7 values to k symbols x all labels
    let k = run.tier.pick(4usize, 5usize);
    let ln = run.tier.pick(4usize, 5usize);
    let syms = &USER_SYMS[..k];
    let mut labels: Vec<Vec<u32>> = vec![vec![]];
    let mut frontier: Vec<Vec<u32>> = vec![vec![]];
    for _ in 0..ln {
        let mut next = Vec::new();
        for l in &frontier {
            for s in syms {
                let mut m = l.clone();
                m.push(*s);
                next.push(m);
            }
        }
        labels.extend(next.iter().cloned());
        frontier = next;
    }
    let nassign = 7u64.pow(k as u32);
    let shards: Vec<Stats> = (0..nassign)
        .into_par_iter()
        .fold(Stats::default, |mut st, mut idx| {
            let mut assign = vec![DP::Unassigned; 5];
            for slot in assign.iter_mut().take(k) {
                *slot = DP::ALL[(idx % 7) as usize];
                idx /= 7;
            }
            st.states += 1;
            for l in &labels {
                st.transitions += 1;
                check_user(env, &assign, l, &mut st);
            }
            st
        })
        .collect();
    for s in shards {
        st.merge(s);
    }
    // ... and over the second symbol set (whole-label rules: both digit families, katakana dot)
    {
        let syms2 = &USER_SYMS_2[..k];
        let mut labels2: Vec<Vec<u32>> = vec![vec![]];
        let mut frontier: Vec<Vec<u32>> = vec![vec![]];
        for _ in 0..ln {
            let mut next = Vec::new();
            for l in &frontier {
                for s in syms2 {
                    let mut m = l.clone();
                    m.push(*s);
                    next.push(m);
                }
            }
            labels2.extend(next.iter().cloned());
            frontier = next;
        }
        let shards: Vec<Stats> = (0..nassign)
            .into_par_iter()
            .fold(Stats::default, |mut st, mut idx| {
                let mut assign = vec![DP::Unassigned; 5];
                for slot in assign.iter_mut().take(k) {
                    *slot = DP::ALL[(idx % 7) as usize];
                    idx /= 7;
                }
                st.states += 1;
                for l in &labels2 {
                    st.transitions += 1;
                    check_user_set(env, 1, &assign, l, &mut st);
                }
                st
            })
            .collect();
        for s in shards {
            st.merge(s);
        }
    }
    // allows over the joining alphabet, long enough for two ZWNJ with their transparent runs
    {
        let ja: Vec<char> = [0x626u32, 0x5BF, 0x200C, 0x61, 0x629].iter().map(|c| char::from_u32(*c).unwrap()).collect();
        st.merge(strtree(&ja, run.tier.pick(8, 9), |chars, s, st| {
            let l: Vec<u32> = chars.iter().map(|c| *c as u32).collect();
            for class in [Class::Identifier, Class::Freeform] {
                check_std(env, class, &l, s, st);
            }
        }));
    }
    st.sample(json!({"class": "IdentifierClass", "label": ["U+00E9", "U+10428", "U+0020"], "expected": "BadCodepoint{cp:0x20, position:2 (code points, not bytes), SpecClassDis}"}));
    st.sample(json!({"class": "FreeformClass", "label": ["l", "U+00B7", "l", "U+0378"], "expected": "BadCodepoint{cp:0x378, position:3, Unassigned} - the satisfied middle dot does not stop the scan"}));
    st.sample(json!({"class": "user class {l:ContextO, U+00B7:PValid}", "label": ["l"], "expected": "an error naming 'l' at position 0 (no RFC 5892 rule exists for it)"}));
    let cov = Coverage {
        rule: format!("standard classes: every label of length <= {} over a 27-symbol alphabet holding every derived-property value x every context-rule family x every enabling neighbour x UTF-8 lengths 1-4, plus pumped runs and ASCII block strings, every scalar value in 17 label templates and next to each of its 16 other-plane aliases (incl. every role a context rule inspects), both classes; every label of length <= 8 / 9 over {{dual-joining, transparent, ZWNJ, a, right-joining}} through both classes; user classes: all 7^{} assignments of derived-property values to {:?} (and to a second symbol set: both digit families, katakana dot, katakana, a) x all {} labels of length <= {} (labels with two or more contextual code points also through a re-entrant class whose classifier itself calls allows); oracle = first-offender semantics with RFC 5892 rules (reference), classification taken from the class's own get_value_from_char; non-trivial = label holds a contextual code point or is rejected at index >= 1 behind a multi-byte character", n, k, syms.iter().map(|c| format!("U+{:04X}", c)).collect::<Vec<_>>(), labels.len(), ln),
        alphabet: json!(sigma.iter().map(|c| format!("U+{:04X}", *c as u32)).collect::<Vec<_>>()),
        bound_completed: format!("tree length <= {} ({} labels x 2 classes); sweep 1,112,064 x 15 templates x 2 classes; user classes {} assignments x {} labels", n, tree_size(sigma.len(), n), nassign, labels.len()),
        exhaustive: false,
        assumptions: vec!["classification of single code points is C14's subject and is taken from the implementation here".into()],
        extra: json!({}),
    };
    (st, cov)
}

pub fn replay(env: &Env, case: &Case) -> Vec<Violation> {
    let mut st = Stats::default();
    match case.op.as_str() {
        "allows" => {
            if let Some(l) = case.strs.first() {
                let class = if case.extra.as_str() == Some("Identifier") { Class::Identifier } else { Class::Freeform };
                check_std(env, class, l, &from_cps(l), &mut st);
            }
        }
        "user" | "user_reentrant" => {
            if let (Some(l), Some(a)) = (case.strs.first(), case.extra.as_array()) {
                let assign: Vec<DP> = a.iter().filter_map(|x| x.as_u64().map(|i| DP::ALL[i as usize % 7])).collect();
                if assign.len() == 5 {
                    check_user_variant(env, case.nums.first().copied().unwrap_or(0) as u8, &assign, l, case.op == "user_reentrant", &mut st);
                }
            }
        }
        _ => {}
    }
    st.violations
}
