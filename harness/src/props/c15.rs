//! C15 - table generators are faithful to any well-formed UCD input.

use crate::engine::*;
use crate::env::Env;
use crate::refmodel::exception;
use crate::subject::guard;
use crate::tables::*;
use crate::ucd::{repo_dir, verif_dir, PropFile, UnicodeData, NCP};
use precis_core::Codepoints;
use precis_tools::{
    BidiClassGen, DerivedJoiningType, GeneralCategoryGen, HangulSyllableType, RustCodeGen, UcdFileGen, UcdTableGen, UnassignedTableGen, UnicodeGen, ViramaTableGen, WidthMappingTableGen,
};
use rayon::prelude::*;
use serde_json::{json, Value};
use std::path::{Path, PathBuf};

type Iv = (u32, u32, Option<String>);

fn show_iv(v: &[Iv]) -> String {
    let mut s = String::new();
    for (i, (a, b, val)) in v.iter().enumerate() {
        if i >= 12 {
            s.push_str(&format!(" ... ({} intervals)", v.len()));
            break;
        }
        if i > 0 {
            s.push(' ');
        }
        if a == b {
            s.push_str(&format!("{:04X}", a));
        } else {
            s.push_str(&format!("{:04X}-{:04X}", a, b));
        }
        if let Some(x) = val {
            s.push_str(&format!("={}", x));
        }
    }
    if v.is_empty() {
        s.push_str("(empty)");
    }
    s
}

/// first difference between two interval lists, for the message
fn diff_iv(exp: &[Iv], got: &[Iv]) -> Option<String> {
    if exp == got {
        return None;
    }
    for i in 0..exp.len().max(got.len()) {
        if exp.get(i) != got.get(i) {
            let lo = i.saturating_sub(1);
            return Some(format!(
                "first difference at interval {}: expected [{}] got [{}]",
                i,
                show_iv(&exp[lo.min(exp.len())..(i + 2).min(exp.len())]),
                show_iv(&got[lo.min(got.len())..(i + 2).min(got.len())])
            ));
        }
    }
    None
}

fn to_real(t: &Table) -> Vec<Codepoints> {
    t.entries
        .iter()
        .map(|e| if e.single { Codepoints::Single(e.start) } else { Codepoints::Range(std::ops::RangeInclusive::new(e.start, e.end)) })
        .collect()
}

/// searchability with the library's own expression
fn check_search<M: Fn(u32) -> Option<Option<String>>>(t: &Table, probes: &[u32], member: M, mk: &dyn Fn() -> Case, st: &mut Stats) {
    let real = to_real(t);
    for &cp in probes {
        st.evaluations += 1;
        st.traces += 1;
        let r = guard(|| real.binary_search_by(|e| e.partial_cmp(&cp).unwrap()));
        let m = member(cp);
        match r {
            Err(p) => st.violation("search_panic", mk, format!("{} searchable at {:04X}", t.name, cp), format!("PANIC({})", p)),
            Ok(Ok(i)) => {
                let e = &t.entries[i];
                let contains = e.start <= cp && cp <= e.end;
                match &m {
                    Some(v) if contains && *v == e.value => {}
                    _ => st.violation(
                        "search",
                        mk,
                        format!("{}: search for {:04X} -> {:?}", t.name, cp, m),
                        format!("found entry {} [{:04X},{:04X}] value {:?}", i, e.start, e.end, e.value),
                    ),
                }
            }
            Ok(Err(_)) => {
                if m.is_some() {
                    st.violation("search", mk, format!("{}: search for {:04X} finds value {:?}", t.name, cp, m), "not found".into());
                }
            }
        }
    }
}

fn ivs_from_bools(v: &[bool]) -> Vec<Iv> {
    let mut out = Vec::new();
    let mut i = 0;
    while i < v.len() {
        if v[i] {
            let s = i;
            while i + 1 < v.len() && v[i + 1] {
                i += 1;
            }
            out.push((s as u32, i as u32, None));
        }
        i += 1;
    }
    out
}

fn member_of(iv: &[Iv], cp: u32) -> Option<Option<String>> {
    match iv.binary_search_by(|(s, e, _)| if *e < cp { std::cmp::Ordering::Less } else if *s > cp { std::cmp::Ordering::Greater } else { std::cmp::Ordering::Equal }) {
        Ok(i) => Some(iv[i].2.clone()),
        Err(_) => None,
    }
}

/// compare one emitted table with the expected denotation
fn check_table(t: &Table, exp: &[Iv], probes: &[u32], mk: &dyn Fn() -> Case, st: &mut Stats) {
    st.evaluations += 1;
    st.traces += 1;
    let d = denote(t);
    if t.declared_len != t.entries.len() {
        st.violation("declared_len", mk, format!("{}: {} entries declared", t.name, t.declared_len), format!("{} emitted", t.entries.len()));
    }
    for o in &d.order_defects {
        st.violation("order", mk, format!("{}: entries strictly increasing and disjoint", t.name), o.clone());
    }
    if d.degenerate > 0 {
        st.add("degenerate_entries", d.degenerate as u64);
    }
    if let Some(df) = diff_iv(exp, &d.intervals) {
        st.violation("denotation", mk, format!("{} = {}", t.name, show_iv(exp)), format!("{} ; {}", show_iv(&d.intervals), df));
    }
    check_search(t, probes, |cp| member_of(exp, cp), mk, st);
}

// ---------------------------------------------------------------------------
// (a) the tables the real build scripts just produced
// ---------------------------------------------------------------------------

fn outdirs() -> Option<(PathBuf, PathBuf)> {
    let f = std::env::var_os("PMC_OUTDIRS")?;
    let text = std::fs::read_to_string(f).ok()?;
    let mut core = None;
    let mut prof = None;
    for l in text.lines() {
        let mut it = l.split_whitespace();
        match (it.next(), it.next()) {
            (Some("precis-core"), Some(p)) => core = Some(PathBuf::from(p)),
            (Some("precis-profiles"), Some(p)) => prof = Some(PathBuf::from(p)),
            _ => {}
        }
    }
    Some((core?, prof?))
}

/// (f) The build scripts are programs with an environment. Cargo tells them the optimisation
/// level, the profile, whether debug info is on, the target's pointer width and endianness, and
/// they run in some working directory under some locale. The tables they emit are data: they must
/// not depend on any of that. Each compiled build script is re-run with OUT_DIR pointing at a
/// scratch directory under the default build environment and under every single deviation from it,
/// and every emitted file must be byte-identical to what the real build (checked in (a)) produced.
pub fn check_build_script_environments(st: &mut Stats) {
    let (core_out, prof_out) = match outdirs() {
        Some(x) => x,
        None => return,
    };
    let scripts: Vec<(String, PathBuf)> = match std::env::var_os("PMC_BUILDSCRIPTS").and_then(|f| std::fs::read_to_string(f).ok()) {
        Some(t) => t
            .lines()
            .filter_map(|l| {
                let mut it = l.split_whitespace();
                Some((it.next()?.to_string(), PathBuf::from(it.next()?)))
            })
            .filter(|(_, p)| p.exists())
            .collect(),
        None => {
            st.note("build-script environments: the compiled build scripts are not known here (run through ./check); skipped".into());
            return;
        }
    };
    let deviations: Vec<(&str, Vec<(&str, &str)>)> = vec![
        ("default", vec![]),
        ("OPT_LEVEL=0", vec![("OPT_LEVEL", "0")]),
        ("OPT_LEVEL=1", vec![("OPT_LEVEL", "1")]),
        ("OPT_LEVEL=2", vec![("OPT_LEVEL", "2")]),
        ("OPT_LEVEL=s", vec![("OPT_LEVEL", "s")]),
        ("OPT_LEVEL=z", vec![("OPT_LEVEL", "z")]),
        ("PROFILE=debug", vec![("PROFILE", "debug"), ("DEBUG", "true"), ("CARGO_CFG_DEBUG_ASSERTIONS", "")]),
        ("DEBUG=true", vec![("DEBUG", "true")]),
        ("32-bit target", vec![("CARGO_CFG_TARGET_POINTER_WIDTH", "32"), ("TARGET", "i686-unknown-linux-gnu"), ("CARGO_CFG_TARGET_ARCH", "x86")]),
        ("big-endian target", vec![("CARGO_CFG_TARGET_ENDIAN", "big"), ("TARGET", "powerpc64-unknown-linux-gnu"), ("CARGO_CFG_TARGET_ARCH", "powerpc64")]),
        ("windows target", vec![("CARGO_CFG_TARGET_OS", "windows"), ("CARGO_CFG_TARGET_FAMILY", "windows"), ("TARGET", "x86_64-pc-windows-msvc"), ("CARGO_CFG_WINDOWS", "")]),
        ("cwd=/", vec![("__CWD", "/")]),
        ("Turkish locale", vec![("LANG", "tr_TR.UTF-8"), ("LC_ALL", "tr_TR.UTF-8")]),
        ("NUM_JOBS=64", vec![("NUM_JOBS", "64")]),
    ];
    let scratch = Scratch::new("bsenv");
    // phase 1: the default environment (its file set is the yardstick); phase 2: the deviations
    let run_job = |i: usize, j: usize| -> (usize, usize, Result<Vec<String>, String>) {
            let (krate, exe) = &scripts[i];
            let (_, devs) = &deviations[j];
            let out = scratch.dir.join(format!("{}-{}", krate, j));
            let _ = std::fs::create_dir_all(&out);
            let manifest = repo_dir().join(krate);
            let mut cmd = std::process::Command::new(exe);
            cmd.env("OUT_DIR", &out)
                .env("CARGO_MANIFEST_DIR", &manifest)
                .env("OPT_LEVEL", "3")
                .env("PROFILE", "release")
                .env("DEBUG", "false")
                .env("TARGET", "x86_64-unknown-linux-gnu")
                .env("HOST", "x86_64-unknown-linux-gnu")
                .env("NUM_JOBS", "16")
                .env("CARGO_CFG_TARGET_POINTER_WIDTH", "64")
                .env("CARGO_CFG_TARGET_ENDIAN", "little")
                .env("CARGO_CFG_TARGET_OS", "linux")
                .env("CARGO_CFG_TARGET_FAMILY", "unix")
                .env("CARGO_CFG_TARGET_ARCH", "x86_64")
                .env("CARGO_CFG_UNIX", "")
                .env_remove("CARGO_CFG_DEBUG_ASSERTIONS")
                .env_remove("CARGO_CFG_WINDOWS")
                .current_dir(&manifest);
            for (k, v) in devs {
                if *k == "__CWD" {
                    cmd.current_dir(v);
                } else {
                    cmd.env(k, v);
                }
            }
            let r = match cmd.output() {
                Err(e) => Err(format!("cannot run {}: {}", exe.display(), e)),
                Ok(o) if !o.status.success() => Err(format!("exit {:?}: {}", o.status, String::from_utf8_lossy(&o.stderr).lines().last().unwrap_or(""))),
                Ok(_) => {
                    let base = if krate == "precis-core" { &core_out } else { &prof_out };
                    let mut diffs = Vec::new();
                    // the files THIS script writes (cargo's directory may hold stale files of earlier
                    // builds of another version of the script; they are nobody's output)
                    let mut names: Vec<String> = std::fs::read_dir(&out).map(|d| d.flatten().map(|e| e.file_name().to_string_lossy().to_string()).collect()).unwrap_or_default();
                    names.sort();
                    if j != 0 {
                        // deviations are compared with the default re-run's file set as well
                        let d0 = scratch.dir.join(format!("{}-0", krate));
                        let mut n0: Vec<String> = std::fs::read_dir(&d0).map(|d| d.flatten().map(|e| e.file_name().to_string_lossy().to_string()).collect()).unwrap_or_default();
                        n0.sort();
                        for n in n0 {
                            if !names.contains(&n) {
                                names.push(n);
                            }
                        }
                    }
                    for n in &names {
                        let a = std::fs::read(base.join(n)).unwrap_or_default();
                        let b = std::fs::read(out.join(n)).ok();
                        match b {
                            None => diffs.push(format!("{} missing", n)),
                            Some(b) if b != a => {
                                let at = a.iter().zip(b.iter()).position(|(x, y)| x != y).unwrap_or(a.len().min(b.len()));
                                let line = a[..at.min(a.len())].iter().filter(|c| **c == b'\n').count() + 1;
                                diffs.push(format!("{} differs from line {} ({} vs {} bytes)", n, line, a.len(), b.len()));
                            }
                            _ => {}
                        }
                    }
                    let extra: Vec<String> = std::fs::read_dir(&out).map(|d| d.flatten().map(|e| e.file_name().to_string_lossy().to_string()).filter(|n| !names.contains(n)).collect()).unwrap_or_default();
                    for n in extra {
                        diffs.push(format!("{} is an additional file", n));
                    }
                    Ok(diffs)
                }
            };
            (i, j, r)
    };
    let mut results: Vec<(usize, usize, Result<Vec<String>, String>)> = (0..scripts.len()).into_par_iter().map(|i| run_job(i, 0)).collect();
    let jobs: Vec<(usize, usize)> = (0..scripts.len()).flat_map(|i| (1..deviations.len()).map(move |j| (i, j))).collect();
    results.extend(jobs.par_iter().map(|&(i, j)| run_job(i, j)).collect::<Vec<_>>());
    // the default environment must reproduce the real build, otherwise this scenario shows nothing
    for (i, (krate, _)) in scripts.iter().enumerate() {
        let default_ok = results.iter().any(|(a, b, r)| *a == i && *b == 0 && matches!(r, Ok(d) if d.is_empty()));
        if !default_ok {
            st.note(format!("build-script environments: re-running the build script of {} by hand does not reproduce cargo's output; scenario skipped for it", krate));
            continue;
        }
        for (a, b, r) in &results {
            if *a != i || *b == 0 {
                continue;
            }
            st.states += 1;
            st.transitions += 1;
            st.evaluations += 1;
            let (dev, _) = &deviations[*b];
            let mk = || Case::new("build_env").x(json!([krate, dev]));
            match r {
                Ok(d) if d.is_empty() => st.count("out:build-env-identical"),
                Ok(d) => {
                    // a different layout is not a defect in itself: what the tables DENOTE decides.
                    // The full check of (a) runs on this environment's output (the other crate's
                    // tables are taken from the real build).
                    let here = scratch.dir.join(format!("{}-{}", krate, b));
                    let mut sub = Stats::default();
                    if krate == "precis-core" {
                        check_built_tables_in(here, prof_out.clone(), &mut sub);
                    } else {
                        check_built_tables_in(core_out.clone(), here, &mut sub);
                    }
                    if sub.violations.is_empty() && sub.caps_hit.is_empty() {
                        st.count("out:build-env-different-layout-same-denotation");
                        st.note(format!("build environment '{}' makes the build script of {} emit different text ({}), denoting the same tables", dev, krate, d.join("; ")));
                    } else {
                        let what: Vec<String> = sub.violations.iter().take(3).map(|v| format!("[{}] expected {} got {}", v.kind, v.expected, v.actual)).chain(sub.caps_hit.iter().cloned()).collect();
                        st.violation(
                            "build_environment",
                            mk,
                            "tables that denote exactly what the input files assign, in every build environment".into(),
                            format!("{}: {} => {}", dev, d.join("; "), what.join(" | ")).chars().take(900).collect(),
                        );
                    }
                }
                Err(e) => st.violation("build_environment", mk, "the build script succeeds as in the default environment".into(), format!("{}: {}", dev, e)),
            }
        }
    }
}

fn gc_table_name(name: &str) -> Option<&'static str> {
    Some(match name {
        "LOWERCASE_LETTER" => "Ll",
        "UPPERCASE_LETTER" => "Lu",
        "OTHER_LETTER" => "Lo",
        "DECIMAL_NUMBER" => "Nd",
        "MODIFIER_LETTER" => "Lm",
        "NONSPACING_MARK" => "Mn",
        "SPACING_MARK" => "Mc",
        "CONTROL" => "Cc",
        "SPACE_SEPARATOR" => "Zs",
        "MATH_SYMBOL" => "Sm",
        "CURRENCY_SYMBOL" => "Sc",
        "MODIFIER_SYMBOL" => "Sk",
        "OTHER_SYMBOL" => "So",
        "CONNECTOR_PUNCTUATION" => "Pc",
        "DASH_PUNCTUATION" => "Pd",
        "OPEN_PUNCTUATION" => "Ps",
        "CLOSE_PUNCTUATION" => "Pe",
        "INITIAL_PUNCTUATION" => "Pi",
        "FINAL_PUNCTUATION" => "Pf",
        "OTHER_PUNCTUATION" => "Po",
        "TITLECASE_LETTER" => "Lt",
        "LETTER_NUMBER" => "Nl",
        "OTHER_NUMBER" => "No",
        "ENCLOSING_MARK" => "Me",
        _ => return None,
    })
}

fn gc_set(ud: &UnicodeData, gc: &str) -> Vec<Iv> {
    let v: Vec<bool> = (0..NCP as u32).map(|cp| ud.get(cp).map(|e| e.gc == gc).unwrap_or(false)).collect();
    ivs_from_bools(&v)
}

pub fn check_built_tables(st: &mut Stats) {
    let (core_out, prof_out) = match outdirs() {
        Some(x) => x,
        None => {
            st.caps_hit.push("MACHINERY: PMC_OUTDIRS not set - run through ./check so the build scripts' out_dir is known".into());
            return;
        }
    };
    check_built_tables_in(core_out, prof_out, st)
}

/// the same check on the tables found in two given output directories
pub fn check_built_tables_in(core_out: PathBuf, prof_out: PathBuf, st: &mut Stats) {
    let core_res = repo_dir().join("precis-core/resources/ucd");
    let prof_res = repo_dir().join("precis-profiles/resources/ucd");
    let load = |p: PathBuf| std::fs::read_to_string(&p).map_err(|e| format!("{}: {}", p.display(), e));
    let r: Result<(), String> = (|| {
        let ud63 = UnicodeData::load(&core_res.join("UnicodeData.txt"))?;
        let ud16 = UnicodeData::load(&prof_res.join("UnicodeData.txt"))?;
        let pl = PropFile::load(&core_res.join("PropList.txt"))?;
        let dcp = PropFile::load(&core_res.join("DerivedCoreProperties.txt"))?;
        let hst = PropFile::load(&core_res.join("HangulSyllableType.txt"))?;
        let sc = PropFile::load(&core_res.join("Scripts.txt"))?;
        let jt = PropFile::load(&core_res.join("extracted/DerivedJoiningType.txt"))?;
        let mut probes: Vec<u32> = (0..NCP as u32).collect();
        probes.extend([0x110000, 0x1FFFFF, u32::MAX]);
        let mut seen = 0usize;
        let files: [(&PathBuf, &str, bool); 5] = [
            (&core_out, "precis_tables.rs", true),
            (&core_out, "context_tables.rs", true),
            (&prof_out, "bidi_class.rs", false),
            (&prof_out, "space_separator.rs", false),
            (&prof_out, "width_mapping.rs", false),
        ];
        for (dir, file, is_core) in files {
            let tables = parse_tables(&load(dir.join(file))?)?;
            for t in &tables {
                let ud = if is_core { &ud63 } else { &ud16 };
                let set = |pf: &PropFile, v: &str| ivs_from_bools(&pf.set(v));
                let exp: Vec<Iv> = if let Some(gc) = gc_table_name(&t.name) {
                    gc_set(ud, gc)
                } else {
                    match t.name.as_str() {
                        "UNASSIGNED" => ivs_from_bools(&(0..NCP as u32).map(|cp| !ud.assigned(cp)).collect::<Vec<_>>()),
                        "EXCEPTIONS" => merge_intervals(
                            (0..NCP as u32)
                                .filter_map(|cp| exception(cp).map(|d| (cp, cp, Some(format!("DerivedPropertyValue::{:?}", d.to_impl())))))
                                .collect(),
                        )
                        .into_iter()
                        // the exceptions table is written one code point per entry; compare per code point
                        .collect(),
                        "BACKWARD_COMPATIBLE" => vec![],
                        "ASCII7" => vec![(0x21, 0x7E, None)],
                        "JOIN_CONTROL" => set(&pl, "Join_Control"),
                        "NONCHARACTER_CODE_POINT" => set(&pl, "Noncharacter_Code_Point"),
                        "DEFAULT_IGNORABLE_CODE_POINT" => set(&dcp, "Default_Ignorable_Code_Point"),
                        "LEADING_JAMO" => set(&hst, "L"),
                        "VOWEL_JAMO" => set(&hst, "V"),
                        "TRAILING_JAMO" => set(&hst, "T"),
                        "VIRAMA" => ivs_from_bools(&(0..NCP as u32).map(|cp| ud.ccc(cp) == 9).collect::<Vec<_>>()),
                        "GREEK" => set(&sc, "Greek"),
                        "HEBREW" => set(&sc, "Hebrew"),
                        "HIRAGANA" => set(&sc, "Hiragana"),
                        "KATAKANA" => set(&sc, "Katakana"),
                        "HAN" => set(&sc, "Han"),
                        "DUAL_JOINING" => set(&jt, "D"),
                        "LEFT_JOINING" => set(&jt, "L"),
                        "RIGHT_JOINING" => set(&jt, "R"),
                        "TRANSPARENT" => set(&jt, "T"),
                        "BIDI_CLASS_TABLE" => {
                            // lookup semantics with the documented default L
                            check_bidi_lookup(t, &ud16, &probes, st);
                            seen += 1;
                            continue;
                        }
                        "WIDE_NARROW_MAPPING" => merge_intervals((0..NCP as u32).filter_map(|cp| ud.width_map(cp).map(|m| (cp, cp, Some(format!("{:#06x}", m))))).collect()),
                        other => {
                            st.note(format!("table {} in {} has no reference (new table?)", other, file));
                            st.count("tables_without_reference");
                            continue;
                        }
                    }
                };
                seen += 1;
                st.states += 1;
                st.transitions += probes.len() as u64;
                let name = t.name.clone();
                let mk = move || Case::new("built_table").x(json!(name));
                // value-carrying tables are emitted one entry per input entry: compare per code point
                let exp = if t.entries.iter().any(|e| e.value.is_some()) { percp(&exp) } else { exp };
                let mut tt = t.clone();
                if tt.entries.iter().any(|e| e.value.is_some()) {
                    // normalise hex spelling of numeric values
                    for e in tt.entries.iter_mut() {
                        if let Some(v) = &e.value {
                            if let Some(h) = v.strip_prefix("0x") {
                                if let Ok(n) = u32::from_str_radix(h, 16) {
                                    e.value = Some(format!("{:#06x}", n));
                                }
                            }
                        }
                    }
                }
                check_table_percp(&tt, &exp, &probes, &mk, st);
            }
        }
        st.add("built_tables_checked", seen as u64);
        if seen < 47 {
            st.note(format!("only {} of the 47 expected generated tables were found", seen));
        }
        Ok(())
    })();
    if let Err(e) = r {
        st.caps_hit.push(format!("MACHINERY: {}", e));
    }
}

fn percp(iv: &[Iv]) -> Vec<Iv> {
    iv.to_vec()
}

/// like check_table, but value-carrying entries are compared after merging both
/// sides into maximal same-valued intervals
fn check_table_percp(t: &Table, exp: &[Iv], probes: &[u32], mk: &dyn Fn() -> Case, st: &mut Stats) {
    check_table(t, &merge_intervals(exp.to_vec()), probes, mk, st);
}

fn check_bidi_lookup(t: &Table, ud: &UnicodeData, probes: &[u32], st: &mut Stats) {
    st.states += 1;
    st.transitions += probes.len() as u64;
    let name = t.name.clone();
    let mk = move || Case::new("built_table").x(json!(name));
    let d = denote(t);
    for o in &d.order_defects {
        st.violation("order", &mk, format!("{}: entries strictly increasing and disjoint", t.name), o.clone());
    }
    if t.declared_len != t.entries.len() {
        st.violation("declared_len", &mk, format!("{} declared", t.declared_len), format!("{} emitted", t.entries.len()));
    }
    let real = to_real(t);
    let mut bad = 0;
    for &cp in probes {
        st.evaluations += 1;
        st.traces += 1;
        let got = match guard(|| real.binary_search_by(|e| e.partial_cmp(&cp).unwrap())) {
            Ok(Ok(i)) => t.entries[i].value.clone().unwrap_or_default().replace("BidiClass::", ""),
            Ok(Err(_)) => "L".to_string(),
            Err(p) => format!("PANIC({})", p),
        };
        let exp = ud.bidi(cp).unwrap_or("L");
        if got != exp && bad < 20 {
            bad += 1;
            st.violation("bidi_lookup", &mk, format!("class of {:04X} = {}", cp, exp), got);
        }
    }
}

// ---------------------------------------------------------------------------
// (b) synthetic UnicodeData configurations
// ---------------------------------------------------------------------------

#[derive(Clone, Copy, Debug, PartialEq)]
pub struct Item {
    pub off: u32,
    pub len: u32,
    pub bundle: u8,
    pub range: bool,
}

// the wide target is in a supplementary plane, the narrow one in the BMP (value width of the emitted table)
const BUNDLES: [(&str, u8, &str, &str); 3] = [("Lu", 0, "L", ""), ("Mn", 9, "NSM", "<wide> 1B000"), ("Nd", 0, "AN", "<narrow> 0042")];

fn tilings(n: u32, nb: u8, pos: u32, cur: &mut Vec<Item>, out: &mut Vec<Vec<Item>>) {
    if pos == n {
        out.push(cur.clone());
        return;
    }
    tilings(n, nb, pos + 1, cur, out); // gap
    for b in 0..nb {
        cur.push(Item { off: pos, len: 1, bundle: b, range: false });
        tilings(n, nb, pos + 1, cur, out);
        cur.pop();
        for len in 2..=(n - pos) {
            cur.push(Item { off: pos, len, bundle: b, range: true });
            tilings(n, nb, pos + len, cur, out);
            cur.pop();
        }
    }
}

pub fn render_unicode_data(items: &[Item], base: u32) -> String {
    let mut s = String::new();
    for it in items {
        let (gc, ccc, bidi, dec) = BUNDLES[it.bundle as usize];
        let a = base + it.off;
        if it.range {
            let b = a + it.len - 1;
            s.push_str(&format!("{:04X};<Test Block, First>;{};{};{};{};;;;N;;;;;\n", a, gc, ccc, bidi, dec));
            s.push_str(&format!("{:04X};<Test Block, Last>;{};{};{};{};;;;N;;;;;\n", b, gc, ccc, bidi, dec));
        } else {
            s.push_str(&format!("{:04X};TEST CHARACTER {:04X};{};{};{};{};;;;N;;;;;\n", a, a, gc, ccc, bidi, dec));
        }
    }
    s
}

fn run_unicode_data_generators(dir: &Path) -> Result<String, String> {
    let out = dir.join("out.rs");
    run_unicode_data_generators_to(dir, &out)?;
    std::fs::read_to_string(&out).map_err(|e| e.to_string())
}

fn run_unicode_data_generators_to(dir: &Path, out: &Path) -> Result<(), String> {
    run_unicode_data_generators_variant(dir, out, 0)
}

/// variant 0 = the eight generators of (b); 1 = set tables only, a small one last; 2 = one table
fn run_unicode_data_generators_variant(dir: &Path, out: &Path, variant: u8) -> Result<(), String> {
    if variant > 0 {
        let r = guard(|| -> Result<(), String> {
            let mut gen = RustCodeGen::new(out).map_err(|e| e.to_string())?;
            let mut ucd_gen = UcdFileGen::new(dir);
            let mut gc = GeneralCategoryGen::new();
            gc.add(Box::new(UcdTableGen::new("Lu", "t_lu")));
            if variant == 1 {
                gc.add(Box::new(UnassignedTableGen::new("t_unassigned")));
                gc.add(Box::new(UcdTableGen::new("Mn", "t_mn")));
                gc.add(Box::new(UcdTableGen::new("Zs", "t_zs")));
            }
            ucd_gen.add(Box::new(gc));
            gen.add(Box::new(ucd_gen));
            gen.generate_code().map_err(|e| e.to_string())?;
            Ok(())
        });
        return match r {
            Err(p) => Err(format!("PANIC({})", p)),
            Ok(Err(e)) => Err(format!("generator error: {}", e)),
            Ok(Ok(())) => Ok(()),
        };
    }
    let r = guard(|| -> Result<(), String> {
        let mut gen = RustCodeGen::new(&out).map_err(|e| e.to_string())?;
        let mut ucd_gen = UcdFileGen::new(dir);
        let mut gc = GeneralCategoryGen::new();
        gc.add(Box::new(UcdTableGen::new("Lu", "t_lu")));
        gc.add(Box::new(UcdTableGen::new("Mn", "t_mn")));
        gc.add(Box::new(UcdTableGen::new("Nd", "t_nd")));
        gc.add(Box::new(UcdTableGen::new("Zs", "t_zs")));
        gc.add(Box::new(UnassignedTableGen::new("t_unassigned")));
        gc.add(Box::new(ViramaTableGen::new("t_virama")));
        gc.add(Box::new(WidthMappingTableGen::new("t_width")));
        gc.add(Box::new(BidiClassGen::new("t_bidi")));
        // the same categories once more under other names (a table is a view of the input, and two
        // views of one category are a legitimate configuration)
        gc.add(Box::new(UcdTableGen::new("Lu", "t_lu_again")));
        gc.add(Box::new(UcdTableGen::new("Mn", "t_mn_again")));
        ucd_gen.add(Box::new(gc));
        gen.add(Box::new(ucd_gen));
        gen.generate_code().map_err(|e| e.to_string())?;
        Ok(())
    });
    match r {
        Err(p) => Err(format!("PANIC({})", p)),
        Ok(Err(e)) => Err(format!("generator error: {}", e)),
        Ok(Ok(())) => Ok(()),
    }
}

fn failure_inputs() -> Vec<(&'static str, Vec<Item>)> {
    vec![
        ("small", vec![Item { off: 0, len: 1, bundle: 0, range: false }, Item { off: 2, len: 3, bundle: 1, range: true }]),
        ("large", (0..1200u32).map(|i| Item { off: 2 * i, len: 1, bundle: (i % 2) as u8, range: false }).collect::<Vec<_>>()),
    ]
}

/// the UnicodeData pipeline of `run_unicode_data_generators`, handed an already opened file
fn unicode_data_pipeline_into(dir: &Path, file: &mut std::fs::File, which: usize) -> Result<(), String> {
    use precis_tools::CodeGen;
    let r = guard(|| -> Result<(), String> {
        let mut ucd_gen = UcdFileGen::new(dir);
        let mut gc = GeneralCategoryGen::new();
        // one generator at a time (which = 0..7), or all of them (which >= 7)
        if which == 0 || which >= 7 {
            gc.add(Box::new(UcdTableGen::new("Lu", "t_lu")));
        }
        if which == 1 || which >= 7 {
            gc.add(Box::new(UcdTableGen::new("Mn", "t_mn")));
        }
        if which == 2 || which >= 7 {
            gc.add(Box::new(UcdTableGen::new("Nd", "t_nd")));
        }
        if which == 3 || which >= 7 {
            gc.add(Box::new(UnassignedTableGen::new("t_unassigned")));
        }
        if which == 4 || which >= 7 {
            gc.add(Box::new(ViramaTableGen::new("t_virama")));
        }
        if which == 5 || which >= 7 {
            gc.add(Box::new(WidthMappingTableGen::new("t_width")));
        }
        if which == 6 || which >= 7 {
            gc.add(Box::new(BidiClassGen::new("t_bidi")));
        }
        ucd_gen.add(Box::new(gc));
        ucd_gen.generate_code(file).map_err(|e| e.to_string())
    });
    match r {
        Err(p) => Err(format!("PANIC({})", p)),
        Ok(x) => x,
    }
}

/// child mode `pmc __genlimit <dir>`: the pipeline into <dir>/out.rs under whatever file-size
/// limit the parent shell set; prints GEN-OK / GEN-ERR
pub fn child_genlimit(dir: &str, variant: u8) -> i32 {
    crate::subject::silence_panics();
    let d = Path::new(dir);
    match run_unicode_data_generators_variant(d, &d.join("out.rs"), variant) {
        Ok(()) => println!("GEN-OK"),
        Err(e) => println!("GEN-ERR {}", e.replace('\n', " ")),
    }
    0
}

/// Environment faults on the output side, enumerated: (1) the device is full from the first
/// byte; (2) the handle is not writable at all; (3) writing fails once the file has grown to L
/// KiB, for EVERY L up to the size of the complete output (RLIMIT_FSIZE in a child, SIGXFSZ
/// ignored). The generator may fail however it likes - but if it reports success, the file must
/// hold the complete tables: a table that was not emitted denotes nothing.
pub fn check_output_failure(st: &mut Stats) {
    let s = Scratch::new("full");
    for (name, items) in failure_inputs() {
        st.states += 1;
        let text = render_unicode_data(&items, 0x1000);
        if std::fs::write(s.dir.join("UnicodeData.txt"), &text).is_err() {
            st.caps_hit.push("MACHINERY: cannot write scratch input".into());
            return;
        }
        // the same run into a regular file must succeed (otherwise the scenario shows nothing)
        if run_unicode_data_generators(&s.dir).is_err() {
            continue;
        }
        let mkc = |what: &str, l: u64| {
            let (n, w) = (name.to_string(), what.to_string());
            move || Case::new("output_failure").n(l).x(json!([n, w]))
        };
        // (1) device full
        let full = Path::new("/dev/full");
        if full.exists() {
            st.transitions += 1;
            st.evaluations += 1;
            if let Ok(()) = run_unicode_data_generators_to(&s.dir, full) {
                st.violation("silent_write_failure", mkc("dev_full", 0), "an error: not one byte of the tables could be written (output = /dev/full)".into(), "generate_code() returned Ok(())".into());
            }
        }
        // (2) a handle that cannot be written to
        {
            st.transitions += 1;
            st.evaluations += 1;
            let ro = s.dir.join("readonly.rs");
            let _ = std::fs::write(&ro, "");
            for which in 0..8usize {
                if let Ok(mut f) = std::fs::File::open(&ro) {
                    // a generator with nothing to write may well succeed: only judge it if it
                    // writes something into a writable file
                    let probe = s.dir.join("probe.rs");
                    let wrote = std::fs::File::create(&probe).ok().and_then(|mut w| unicode_data_pipeline_into(&s.dir, &mut w, which).ok()).is_some()
                        && std::fs::metadata(&probe).map(|m| m.len() > 0).unwrap_or(false);
                    if wrote {
                        st.evaluations += 1;
                        if let Ok(()) = unicode_data_pipeline_into(&s.dir, &mut f, which) {
                            st.violation("silent_write_failure", mkc("read_only_handle", which as u64), "an error: the handle is read-only, every write fails".into(), "generate_code(file) returned Ok(())".into());
                        }
                    }
                }
            }
        }
        // (3) every file-size limit below the complete size
        let bin = match std::env::var("PMC_BIN").map(PathBuf::from).or_else(|_| std::env::current_exe()) {
            Ok(b) => b,
            Err(_) => continue,
        };
        for variant in 0..3u8 {
        let out_path = s.dir.join("out.rs");
        let _ = std::fs::remove_file(&out_path);
        let complete = match run_unicode_data_generators_variant(&s.dir, &out_path, variant).ok().and_then(|_| std::fs::read_to_string(&out_path).ok()) {
            Some(t) => t,
            None => continue,
        };
        let blocks = (complete.len() as u64) / 1024 + 1;
        for l in 0..=blocks {
            st.transitions += 1;
            st.evaluations += 1;
            let _ = std::fs::remove_file(s.dir.join("out.rs"));
            let out = std::process::Command::new("bash")
                .arg("-c")
                .arg("trap '' XFSZ; ulimit -f \"$1\" || exit 97; exec \"$0\" __genlimit \"$2\" \"$3\"")
                .arg(&bin)
                .arg(l.to_string())
                .arg(&s.dir)
                .arg(variant.to_string())
                .output();
            let o = match out {
                Ok(o) => o,
                Err(_) => {
                    st.note("no bash here: the file-size-limit scenario was skipped".into());
                    break;
                }
            };
            let t = String::from_utf8_lossy(&o.stdout).to_string();
            if o.status.code() == Some(97) {
                st.note("ulimit -f unavailable: the file-size-limit scenario was skipped".into());
                break;
            }
            let written = std::fs::read_to_string(s.dir.join("out.rs")).unwrap_or_default();
            if t.contains("GEN-OK") {
                if written != complete {
                    st.violation(
                        "silent_write_failure",
                        mkc(&format!("file_size_limit_kib/pipeline{}", variant), l),
                        format!("either an error, or the complete output of {} bytes", complete.len()),
                        format!("Ok(()) with {} bytes in the file (writes beyond {} KiB fail with EFBIG)", written.len(), l),
                    );
                }
                st.count("out:limited-output-complete");
            } else if t.contains("GEN-ERR") {
                st.count("out:limited-output-error");
            } else {
                st.count("out:limited-output-child-died");
            }
        }
        }
    }
}

/// Every synthetic input file gets the SAME modification time: successive configurations of a
/// shard are written to one path, many have the same byte length, and the harness owns the clock -
/// an input that is re-read must be re-read, whatever its metadata says.
fn pin_mtime(p: &Path) {
    if let Ok(f) = std::fs::OpenOptions::new().write(true).open(p) {
        let _ = f.set_modified(std::time::UNIX_EPOCH + std::time::Duration::from_secs(1_400_000_000));
    }
}

pub fn check_unicode_data_config(dir: &Path, items: &[Item], base: u32, n: u32, st: &mut Stats) {
    let text = render_unicode_data(items, base);
    if std::fs::write(dir.join("UnicodeData.txt"), &text).is_err() {
        st.caps_hit.push("MACHINERY: cannot write scratch UnicodeData.txt".into());
        return;
    }
    pin_mtime(&dir.join("UnicodeData.txt"));
    let items_json: Vec<Value> = items.iter().map(|i| json!([i.off, i.len, i.bundle, i.range])).collect();
    let mk = move || Case::new("unicode_data").n(base as u64).n(n as u64).x(json!(items_json));
    st.evaluations += 1;
    let out = match run_unicode_data_generators(dir) {
        Ok(o) => o,
        Err(e) => {
            st.violation("generator_failed", &mk, "tables for a well-formed UnicodeData.txt".into(), e);
            return;
        }
    };
    let tables = match parse_tables(&out) {
        Ok(t) => t,
        Err(e) => {
            st.violation("unparsable_output", &mk, "Rust table source".into(), e);
            return;
        }
    };
    let mut probes: Vec<u32> = (base.saturating_sub(2)..=(base + n + 1).min(0x10FFFF)).collect();
    probes.extend([0, 1, 0x7FFFF, 0x10FFFC, 0x10FFFD, 0x10FFFE, 0x10FFFF, 0x110000]);
    let ivs = |pred: &dyn Fn(&Item) -> Option<Option<String>>| -> Vec<Iv> {
        merge_intervals(items.iter().filter_map(|it| pred(it).map(|v| (base + it.off, base + it.off + it.len - 1, v))).collect())
    };
    for t in &tables {
        st.transitions += 1;
        let exp: Vec<Iv> = match t.name.as_str() {
            "T_LU" | "T_LU_AGAIN" => ivs(&|it| if BUNDLES[it.bundle as usize].0 == "Lu" { Some(None) } else { None }),
            "T_MN" | "T_MN_AGAIN" => ivs(&|it| if BUNDLES[it.bundle as usize].0 == "Mn" { Some(None) } else { None }),
            "T_ND" => ivs(&|it| if BUNDLES[it.bundle as usize].0 == "Nd" { Some(None) } else { None }),
            "T_ZS" => vec![],
            "T_VIRAMA" => ivs(&|it| if BUNDLES[it.bundle as usize].1 == 9 { Some(None) } else { None }),
            "T_WIDTH" => ivs(&|it| {
                let d = BUNDLES[it.bundle as usize].3;
                d.split_whitespace().nth(1).map(|h| Some(format!("{:#06x}", u32::from_str_radix(h, 16).unwrap())))
            }),
            "T_UNASSIGNED" => {
                let mut gaps: Vec<Iv> = Vec::new();
                let mut next = 0u32;
                for it in items {
                    let a = base + it.off;
                    if a > next {
                        gaps.push((next, a - 1, None));
                    }
                    next = a + it.len;
                }
                if next <= 0x10FFFF {
                    gaps.push((next, 0x10FFFF, None));
                }
                gaps
            }
            "T_BIDI" => {
                // default-L lookup semantics: the table must give every listed code point its class
                check_bidi_synthetic(t, items, base, &probes, &mk, st);
                continue;
            }
            _ => continue,
        };
        let mut tt = t.clone();
        for e in tt.entries.iter_mut() {
            if let Some(v) = &e.value {
                if let Some(h) = v.strip_prefix("0x") {
                    if let Ok(x) = u32::from_str_radix(h, 16) {
                        e.value = Some(format!("{:#06x}", x));
                    }
                }
            }
        }
        check_table(&tt, &exp, &probes, &mk, st);
    }
    if tables.len() != 10 {
        st.violation("missing_tables", &mk, "10 tables".into(), format!("{} tables", tables.len()));
    }
}

fn check_bidi_synthetic(t: &Table, items: &[Item], base: u32, probes: &[u32], mk: &dyn Fn() -> Case, st: &mut Stats) {
    let d = denote(t);
    for o in &d.order_defects {
        st.violation("order", mk, format!("{}: entries strictly increasing and disjoint", t.name), o.clone());
    }
    if t.declared_len != t.entries.len() {
        st.violation("declared_len", mk, format!("{} declared", t.declared_len), format!("{} emitted", t.entries.len()));
    }
    let real = to_real(t);
    for &cp in probes {
        st.evaluations += 1;
        st.traces += 1;
        let exp = items
            .iter()
            .find(|it| base + it.off <= cp && cp <= base + it.off + it.len - 1)
            .map(|it| BUNDLES[it.bundle as usize].2)
            .unwrap_or("L");
        let got = match guard(|| real.binary_search_by(|e| e.partial_cmp(&cp).unwrap())) {
            Ok(Ok(i)) => t.entries[i].value.clone().unwrap_or_default().replace("BidiClass::", ""),
            Ok(Err(_)) => "L".to_string(),
            Err(p) => format!("PANIC({})", p),
        };
        if got != exp {
            st.violation("bidi_lookup", mk, format!("class of {:04X} = {}", cp, exp), got);
        }
    }
    // every emitted non-degenerate entry must lie inside listed code points of that class
    for (s, e, v) in &d.intervals {
        let cls = v.clone().unwrap_or_default().replace("BidiClass::", "");
        for cp in *s..=*e {
            let listed = items.iter().find(|it| base + it.off <= cp && cp <= base + it.off + it.len - 1).map(|it| BUNDLES[it.bundle as usize].2);
            if listed != Some(cls.as_str()) && !(listed.is_none() && cls == "L") {
                st.violation("bidi_extra", mk, format!("{:04X} is {:?} in the input", cp, listed), format!("table says {}", cls));
                break;
            }
        }
    }
}

// ---------------------------------------------------------------------------
// (c) synthetic property files
// ---------------------------------------------------------------------------

#[derive(Clone, Copy, Debug, PartialEq)]
pub enum FileKind {
    Scripts,
    PropList,
    DerivedCore,
    Hangul,
    Joining,
}

impl FileKind {
    const ALL: [FileKind; 5] = [FileKind::Scripts, FileKind::PropList, FileKind::DerivedCore, FileKind::Hangul, FileKind::Joining];
    fn rel(self) -> &'static str {
        match self {
            FileKind::Scripts => "Scripts.txt",
            FileKind::PropList => "PropList.txt",
            FileKind::DerivedCore => "DerivedCoreProperties.txt",
            FileKind::Hangul => "HangulSyllableType.txt",
            FileKind::Joining => "extracted/DerivedJoiningType.txt",
        }
    }
    fn idx(self) -> usize {
        FileKind::ALL.iter().position(|k| *k == self).unwrap()
    }
}

/// lines: (start, end, value) with value 1 = P, 2 = Q
pub fn render_prop_file(lines: &[(u32, u32, u8)]) -> String {
    let mut s = String::from("# synthetic property file\n\n");
    for (a, b, v) in lines {
        let name = if *v == 1 { "P" } else { "Q" };
        if a == b {
            s.push_str(&format!("{:04X}          ; {} # Lo       TEST\n", a, name));
        } else {
            s.push_str(&format!("{:04X}..{:04X}    ; {} # Lo   [{}] TEST..TEST\n", a, b, name, b - a + 1));
        }
    }
    s.push_str("\n# EOF\n");
    s
}

fn run_prop_generators(dir: &Path, kind: FileKind) -> Result<String, String> {
    let out = dir.join("out.rs");
    let r = guard(|| -> Result<(), String> {
        let mut gen = RustCodeGen::new(&out).map_err(|e| e.to_string())?;
        let mut ucd_gen = UcdFileGen::new(dir);
        macro_rules! add {
            ($t:ty) => {{
                let mut g: UnicodeGen<$t> = UnicodeGen::new();
                g.add(Box::new(UcdTableGen::new("P", "t_p")));
                g.add(Box::new(UcdTableGen::new("Q", "t_q")));
                g.add(Box::new(UcdTableGen::new("Z", "t_z")));
                ucd_gen.add(Box::new(g));
            }};
        }
        match kind {
            FileKind::Scripts => add!(ucd_parse::Script),
            FileKind::PropList => add!(ucd_parse::Property),
            FileKind::DerivedCore => add!(ucd_parse::CoreProperty),
            FileKind::Hangul => add!(HangulSyllableType),
            FileKind::Joining => add!(DerivedJoiningType),
        }
        gen.add(Box::new(ucd_gen));
        gen.generate_code().map_err(|e| e.to_string())?;
        Ok(())
    });
    match r {
        Err(p) => Err(format!("PANIC({})", p)),
        Ok(Err(e)) => Err(format!("generator error: {}", e)),
        Ok(Ok(())) => std::fs::read_to_string(&out).map_err(|e| e.to_string()),
    }
}

pub fn check_prop_config(dir: &Path, kind: FileKind, lines: &[(u32, u32, u8)], lo: u32, hi: u32, st: &mut Stats) {
    let text = render_prop_file(lines);
    let p = dir.join(kind.rel());
    if let Some(parent) = p.parent() {
        let _ = std::fs::create_dir_all(parent);
    }
    if std::fs::write(&p, &text).is_err() {
        st.caps_hit.push("MACHINERY: cannot write scratch property file".into());
        return;
    }
    pin_mtime(&p);
    let lj: Vec<Value> = lines.iter().map(|l| json!([l.0, l.1, l.2])).collect();
    let mk = move || Case::new("prop_file").n(kind.idx() as u64).n(lo as u64).n(hi as u64).x(json!(lj));
    st.evaluations += 1;
    let out = match run_prop_generators(dir, kind) {
        Ok(o) => o,
        Err(e) => {
            st.violation("generator_failed", &mk, "tables for a well-formed property file".into(), e);
            return;
        }
    };
    let tables = match parse_tables(&out) {
        Ok(t) => t,
        Err(e) => {
            st.violation("unparsable_output", &mk, "Rust table source".into(), e);
            return;
        }
    };
    let mut probes: Vec<u32> = (lo.saturating_sub(2)..=(hi + 2).min(0x10FFFF)).collect();
    probes.extend([0, 0x10FFFF, 0x110000]);
    for t in &tables {
        st.transitions += 1;
        let want = match t.name.as_str() {
            "T_P" => 1,
            "T_Q" => 2,
            "T_Z" => 3,
            _ => continue,
        };
        let exp = merge_intervals(lines.iter().filter(|l| l.2 == want).map(|l| (l.0, l.1, None)).collect());
        check_table(t, &exp, &probes, &mk, st);
    }
    if tables.len() != 3 {
        st.violation("missing_tables", &mk, "3 tables".into(), format!("{} tables", tables.len()));
    }
}

/// all (assignment, segmentation, order) configurations over n slots
fn prop_configs(n: u32, base: u32) -> Vec<Vec<(u32, u32, u8)>> {
    let mut out = Vec::new();
    let na = 3u32.pow(n);
    for a in 0..na {
        let mut vals = Vec::new();
        let mut x = a;
        for _ in 0..n {
            vals.push((x % 3) as u8);
            x /= 3;
        }
        // boundaries between adjacent equal non-zero slots may or may not split the line
        let joints: Vec<usize> = (1..n as usize).filter(|i| vals[*i] != 0 && vals[*i] == vals[*i - 1]).collect();
        for mask in 0..(1u32 << joints.len()) {
            let mut lines: Vec<(u32, u32, u8)> = Vec::new();
            let mut i = 0usize;
            while i < n as usize {
                if vals[i] == 0 {
                    i += 1;
                    continue;
                }
                let s = i;
                while i + 1 < n as usize && vals[i + 1] == vals[s] && {
                    let j = joints.iter().position(|q| *q == i + 1).unwrap();
                    mask & (1 << j) == 0
                } {
                    i += 1;
                }
                lines.push((base + s as u32, base + i as u32, vals[s]));
                i += 1;
            }
            // value-grouped, both orders (real files list one value after the other)
            for first in [1u8, 2u8] {
                let mut l: Vec<(u32, u32, u8)> = lines.iter().filter(|x| x.2 == first).cloned().collect();
                l.extend(lines.iter().filter(|x| x.2 != first).cloned());
                if first == 2 && !lines.iter().any(|x| x.2 == 1) {
                    continue;
                }
                if first == 2 && !lines.iter().any(|x| x.2 == 2) {
                    continue;
                }
                out.push(l);
            }
            // line order carries no meaning in these files: the same lines in descending order
            if lines.len() >= 2 {
                let mut r = lines.clone();
                r.reverse();
                out.push(r);
            }
        }
    }
    out
}

struct Scratch {
    dir: PathBuf,
}
impl Scratch {
    fn new(tag: &str) -> Scratch {
        let dir = std::env::var_os("PMC_BUILD_DIR").map(PathBuf::from).unwrap_or_else(|| verif_dir().join(".build")).join("scratch").join(format!("c15-{}-{}", tag, std::process::id()));
        let _ = std::fs::create_dir_all(&dir);
        Scratch { dir }
    }
}
impl Drop for Scratch {
    fn drop(&mut self) {
        let _ = std::fs::remove_dir_all(&self.dir);
    }
}

pub fn run(_env: &Env, run: &Run) -> (Stats, Coverage) {
    let mut st = Stats::default();
    // (a)
    check_built_tables(&mut st);
    // (b)
    let n = run.tier.pick(6u32, 8u32);
    let nb = run.tier.pick(2u8, 3u8);
    let mut confs = Vec::new();
    tilings(n, nb, 0, &mut Vec::new(), &mut confs);
    // window positions: start of the code space, mid-plane, ending at the last assignable code
    // point U+10FFFD, and ending at U+10FFFE (one before the end of the code space)
    let bases: Vec<u32> = vec![0, 0x1F000, 0x10FFFD - (n - 1), 0x10FFFE - (n - 1)];
    let scratch = Scratch::new("ud");
    let nconf = confs.len();
    let jobs: Vec<(usize, u32)> = (0..confs.len()).flat_map(|i| bases.iter().map(move |b| (i, *b))).collect();
    let shards: Vec<Stats> = jobs
        .par_chunks(128)
        .enumerate()
        .map(|(ci, chunk)| {
            let mut st = Stats::default();
            let dir = scratch.dir.join(format!("w{}", ci));
            let _ = std::fs::create_dir_all(&dir);
            for (i, base) in chunk {
                st.states += 1;
                let items = &confs[*i];
                check_unicode_data_config(&dir, items, *base, n, &mut st);
                if items.iter().any(|x| x.range) && items.len() >= 2 {
                    st.nontrivial += 1;
                }
                st.count(if items.is_empty() { "out:empty-file" } else if items.iter().any(|x| x.range) { "out:with-ranges" } else { "out:singles-only" });
            }
            let _ = std::fs::remove_dir_all(&dir);
            st
        })
        .collect();
    for s in shards {
        st.merge(s);
    }
    // (c)
    let pn = run.tier.pick(5u32, 7u32);
    let pconfs = prop_configs(pn, 0x0370);
    let npconf = pconfs.len();
    // long runs: a maximal run of exactly L consecutive code points (one line, or two adjacent
    // lines), then after a gap one more member of the same set and a member of the other set, for
    // L around every power of two up to 2^16: whatever block size a set-to-ranges step works in
    {
        let scratch3 = Scratch::new("pfl");
        let dir = scratch3.dir.join("w");
        let _ = std::fs::create_dir_all(dir.join("extracted"));
        let base = 0x20000u32;
        let mut n = 0u64;
        for k in 8..=16u32 {
            for l in [(1u32 << k) - 1, 1 << k, (1 << k) + 1, 3 << (k - 1)] {
                for split in [false, true] {
                    let mut lines: Vec<(u32, u32, u8)> = Vec::new();
                    if split {
                        lines.push((base, base + l / 2 - 1, 1));
                        lines.push((base + l / 2, base + l - 1, 1));
                    } else {
                        lines.push((base, base + l - 1, 1));
                    }
                    lines.push((base + l + 5, base + l + 5, 1));
                    lines.push((base + l + 9, base + l + 10, 2));
                    st.states += 1;
                    n += 1;
                    check_prop_config(&dir, FileKind::Scripts, &lines, base, base + l + 12, &mut st);
                    check_prop_config(&dir, FileKind::ALL[1 + (k as usize + split as usize) % 4], &lines, base, base + l + 12, &mut st);
                }
            }
        }
        st.add("long_run_property_files", n);
        let _ = std::fs::remove_dir_all(&dir);
    }
    let scratch2 = Scratch::new("pf");
    let shards: Vec<Stats> = pconfs
        .par_chunks(128)
        .enumerate()
        .map(|(ci, chunk)| {
            let mut st = Stats::default();
            let dir = scratch2.dir.join(format!("w{}", ci));
            let _ = std::fs::create_dir_all(dir.join("extracted"));
            for (k, lines) in chunk.iter().enumerate() {
                st.states += 1;
                // Scripts always; the four other file types in rotation (same table generator behind them)
                check_prop_config(&dir, FileKind::Scripts, lines, 0x0370, 0x0370 + pn, &mut st);
                let other = FileKind::ALL[1 + (ci + k) % 4];
                check_prop_config(&dir, other, lines, 0x0370, 0x0370 + pn, &mut st);
                if lines.len() >= 2 {
                    st.nontrivial += 1;
                }
                st.count("out:property-file");
            }
            let _ = std::fs::remove_dir_all(&dir);
            st
        })
        .collect();
    for s in shards {
        st.merge(s);
    }
    // (f) the build scripts under every single deviation from the default build environment
    check_build_script_environments(&mut st);
    // (e) environment fault: the output device is full
    check_output_failure(&mut st);
    // (d) two generator pipelines (own inputs, own output files) at the same time in one process
    let race = crate::race::race_pass("tools", run, &mut st);
    st.sample(json!({"UnicodeData": "0000 First..0001 Last (Lu,L); gap; 0003 First..0004 Last (Lu,L); 0005 (Mn,NSM)", "expected": "T_BIDI looks up 0005 as NSM, and 0003..0004 as L; T_UNASSIGNED = {0002, 0006..10FFFF}"}));
    st.sample(json!({"Scripts.txt": "0370..0371 ; P / 0372 ; P / 0373 ; Q (Q lines first)", "expected": "T_P = 0370-0372, T_Q = 0373, T_Z empty"}));
    st.sample(json!({"built": "all tables in OUT_DIR of precis-core and precis-profiles build scripts", "expected": "each denotes exactly what the repo's resource files assign, for every code point, and is binary-searchable"}));
    let cov = Coverage {
        rule: format!("(a) every table the real build scripts just emitted (read from cargo's out_dir) x every code point, against an independent reader of the same input files; (b) every tiling of a {}-slot code-point window into {{gap, single entry, First/Last range}} with {} attribute bundles (gc/ccc/bidi/decomposition), at four window positions (0, mid-plane, ending at U+10FFFD, ending at U+10FFFE), through RustCodeGen+UcdFileGen+GeneralCategoryGen with UcdTableGen x4 (+ two categories registered a second time under other names), UnassignedTableGen, ViramaTableGen, WidthMappingTableGen, BidiClassGen; (c) every assignment of {{none,P,Q}} to {} slots x every segmentation into single/range lines x both value-grouped orders and the fully reversed line order through UnicodeGen<Script> and, in rotation, the four other property-file types; (f) each compiled build script re-run under the default build environment and 13 single deviations from it (OPT_LEVEL 0/1/2/s/z, debug profile, debug info, 32-bit / big-endian / windows target, other working directory, Turkish locale, NUM_JOBS): every emitted file byte-identical to the real build; (e) output-side faults - device full, unwritable handle, and a file-size limit at every KiB below the complete output - after which the generators must not report success with an incomplete file; (d) race-detector pass: every pair of 15 generator / registry-parser pipelines (own inputs, own outputs) on two free-running threads under ThreadSanitizer, outputs compared with the single-threaded ones; oracle per table: denotation (merged intervals and values) equals what the input assigns, entries strictly increasing and disjoint, declared length = emitted length, and a binary search with the library's own expression over real precis_core::Codepoints finds exactly the members (window +-2 and far probes); bidi uses the library's default-L lookup semantics; non-trivial = inputs with at least one range and two entries / two lines", n, nb, pn),
        alphabet: json!({"bundles": BUNDLES.iter().take(nb as usize).map(|b| format!("{};{};{};{}", b.0, b.1, b.2, b.3)).collect::<Vec<_>>(), "window_bases": bases.iter().map(|b| format!("{:04X}", b)).collect::<Vec<_>>()}),
        bound_completed: format!("{} UnicodeData tilings x 4 positions; {} property-file configurations x 2 file types; built tables: all code points", nconf, npconf),
        exhaustive: false,
        assumptions: vec![
            "windows never contain U+10FFFF itself: UnassignedTableGen computes `last + 1` as a Codepoint and reports an error for an entry at U+10FFFF, which no real UnicodeData can contain (noncharacter)".into(),
            "degenerate Range(s>e) entries denote nothing and are reported as a count, not as violations".into(),
        ],
        extra: json!({"race_detector_pass": race}),
    };
    (st, cov)
}

pub fn replay(_env: &Env, case: &Case) -> Vec<Violation> {
    let mut st = Stats::default();
    match case.op.as_str() {
        "race" => st.violations = crate::race::replay(case),
        "build_env" => {
            let mut all = Stats::default();
            check_build_script_environments(&mut all);
            st.violations = all.violations.into_iter().filter(|v| v.case.extra == case.extra).collect();
        }
        "output_failure" => {
            let mut all = Stats::default();
            check_output_failure(&mut all);
            st.violations = all.violations.into_iter().filter(|v| v.case.extra == case.extra && v.case.nums == case.nums).collect();
        }
        "built_table" => {
            let mut all = Stats::default();
            check_built_tables(&mut all);
            let name = case.extra.as_str().unwrap_or("").to_string();
            st.violations = all.violations.into_iter().filter(|v| v.case.extra.as_str() == Some(name.as_str())).collect();
        }
        "unicode_data" if case.nums.len() == 2 => {
            let items: Vec<Item> = case
                .extra
                .as_array()
                .map(|a| {
                    a.iter()
                        .filter_map(|x| {
                            let x = x.as_array()?;
                            Some(Item { off: x[0].as_u64()? as u32, len: x[1].as_u64()? as u32, bundle: x[2].as_u64()? as u8, range: x[3].as_bool()? })
                        })
                        .collect()
                })
                .unwrap_or_default();
            let s = Scratch::new("replay");
            check_unicode_data_config(&s.dir, &items, case.nums[0] as u32, case.nums[1] as u32, &mut st);
        }
        "prop_file" if case.nums.len() == 3 => {
            let lines: Vec<(u32, u32, u8)> = case
                .extra
                .as_array()
                .map(|a| {
                    a.iter()
                        .filter_map(|x| {
                            let x = x.as_array()?;
                            Some((x[0].as_u64()? as u32, x[1].as_u64()? as u32, x[2].as_u64()? as u8))
                        })
                        .collect()
                })
                .unwrap_or_default();
            let s = Scratch::new("replay");
            let _ = std::fs::create_dir_all(s.dir.join("extracted"));
            check_prop_config(&s.dir, FileKind::ALL[(case.nums[0] as usize) % 5], &lines, case.nums[1] as u32, case.nums[2] as u32, &mut st);
        }
        _ => {}
    }
    st.violations
}
