//! C01 - every public operation returns; no input can make it panic.

use crate::engine::*;
use crate::env::Env;
use crate::subject::*;
use crate::watch;
use serde_json::json;

pub fn sigma01() -> Vec<char> {
    [
        0x61u32, 0x41, 0x20, 0x31, 0x2D, // ASCII lower, upper, space, digit (EN), hyphen (ES)
        0xA0, 0x3000, // non-ASCII Zs, 2 and 3 bytes (U+3000 is also <wide>)
        0xE9, 0xC9, 0x65E5, 0x10400, 0x13A0, // letters of 2,2,3,4,3 bytes (cased and uncased)
        0x1C5, 0x130, // titlecase; lowercase mapping of two characters (one byte LONGER in UTF-8)
        0x1E9E, 0x212A, // lowercase mapping one / two bytes SHORTER (cancels the growth of U+0130)
        0xFF21, 0xFF76, // wide, narrow
        0xA8, 0xFDFA, // NFKC introduces a space / expands to 18 characters with spaces
        0x301, // combining mark (NSM)
        0x200C, 0x200D, 0xB7, 0x375, 0x5F3, 0x30FB, 0x660, 0x6F0, // every contextual family
        0x94D, 0x626, 0xA872, 0x629, 0x5BF, // virama, joining D, L, R, T
        0x3B1, 0x5D0, 0x3042, // Greek, Hebrew (R), Hiragana
        0x628, // AL
        0x09, 0x378, 0xFFFF, 0x0, 0x10FFFF, // control, unassigned, noncharacter, NUL, last scalar value
    ]
    .iter()
    .map(|c| char::from_u32(*c).unwrap())
    .collect()
}

fn bad<T: std::fmt::Debug>(what: &str, s: &str, extra: &str, r: &T, st: &mut Stats) {
    let w = what.to_string();
    let e = extra.to_string();
    st.violation("panic", || Case::new("op").s(s).x(json!([w, e])), "Ok(..) or a typed Err(..)".into(), format!("{:?}", r));
}

/// every string-taking public operation on `s`
pub fn all_ops(s: &str, chars: &[char], st: &mut Stats) {
    watch::enter("ops", chars);
    for p in Prof::ALL {
        for (name, r) in [
            ("prepare", prepare(p, s)),
            ("enforce", enforce(p, s)),
            ("prepare_static", prepare_static(p, s)),
            ("enforce_static", enforce_static(p, s)),
        ] {
            st.evaluations += 1;
            if matches!(r, Out::Panic(_)) {
                bad(name, s, p.name(), &r, st);
            }
        }
        for (name, r) in [
            ("compare(s,s)", compare(p, s, s)),
            ("compare(s,a)", compare(p, s, "a")),
            ("compare(a,s)", compare(p, "a", s)),
            ("compare_static(s,s)", compare_static(p, s, s)),
        ] {
            st.evaluations += 1;
            if matches!(r, OutB::Panic(_)) {
                bad(name, s, p.name(), &r, st);
            }
        }
        for rf in RuleFn::ALL {
            let r = rule(p, rf, s);
            st.evaluations += 1;
            if matches!(r, Out::Panic(_)) {
                bad(rf.name(), s, p.name(), &r, st);
            }
        }
    }
    for c in [Class::Identifier, Class::Freeform] {
        let r = allows(c, s);
        st.evaluations += 1;
        if matches!(r, OutU::Panic(_)) {
            bad("allows", s, &format!("{:?}", c), &r, st);
        }
    }
    watch::leave();
    st.traces += 1;
}

/// the five rule functions of every profile, handed an owned `String` (in-place fast paths)
pub fn owned_rule_ops(s: &str, st: &mut Stats) {
    for p in Prof::ALL {
        for rf in RuleFn::ALL {
            for (how, r) in [("String", rule_owned(p, rf, s)), ("String with spare capacity", rule_owned_roomy(p, rf, s))] {
                st.evaluations += 1;
                if matches!(r, Out::Panic(_)) {
                    bad(&format!("{}({})", rf.name(), how), s, p.name(), &r, st);
                }
            }
        }
    }
}

/// Cancellation templates: every scalar value next to a character whose mapping grows in UTF-8
/// and next to one whose mapping shrinks, behind a prefix that makes an earlier rule rewrite
/// the label (so that later rules receive an owned buffer).
fn cancellation_templates(c: char) -> [Vec<char>; 4] {
    [
        vec![' ', '\u{130}', c],
        vec![' ', c, '\u{1e9e}'],
        vec!['\u{ff21}', '\u{130}', c],
        vec!['\u{ff21}', c, '\u{1e9e}'],
    ]
}

/// The rest of the public surface an application touches on the way: the typed errors are
/// values a caller prints and compares (Display, Debug, PartialEq, std::error::Error), and a
/// profile that keeps the default `Rules` methods gets a typed error from each of them.
pub fn misc_surface(strs: &[String], st: &mut Stats) {
    use precis_core::profile::{Profile, Rules};
    use precis_core::{CodepointInfo, Error, UnexpectedError};
    struct Plain;
    impl Rules for Plain {}
    let show_err = |e: &Error| -> Result<(), String> {
        guard(|| {
            let text = format!("{} | {:?} | {:?}", e, e, std::error::Error::source(e).map(|x| x.to_string()));
            let _ = (text.len(), e == e);
        })
    };
    for s in strs {
        st.states += 1;
        for k in 0..5 {
            st.evaluations += 1;
            st.transitions += 1;
            let r = guard(|| match k {
                0 => Plain.width_mapping_rule(s.as_str()).map(|c| c.into_owned()),
                1 => Plain.additional_mapping_rule(s.as_str()).map(|c| c.into_owned()),
                2 => Plain.case_mapping_rule(s.clone()).map(|c| c.into_owned()),
                3 => Plain.normalization_rule(s.as_str()).map(|c| c.into_owned()),
                _ => Plain.directionality_rule(s.clone()).map(|c| c.into_owned()),
            });
            match r {
                Err(p) => st.violation("panic", || Case::new("default_rule").s(s).n(k), "a typed error".into(), format!("PANIC({})", p)),
                Ok(_) => {} // Ok or a typed error: both are what the property asks for
            }
        }
        // every error the profiles produce for this string can be printed and compared
        macro_rules! errs {
            ($t:ty) => {{
                let p = <$t>::new();
                for r in [guard(|| p.prepare(s.as_str()).map(|_| ())), guard(|| p.enforce(s.as_str()).map(|_| ())), guard(|| p.compare(s.as_str(), "a").map(|_| ()))] {
                    st.evaluations += 1;
                    if let Ok(Err(e)) = r {
                        if let Err(pm) = show_err(&e) {
                            st.violation("panic", || Case::new("error_value").s(s), "Display / Debug / source / == of the error return complete".into(), format!("PANIC({})", pm));
                        }
                    }
                }
            }};
        }
        errs!(precis_profiles::Nickname);
        errs!(precis_profiles::OpaqueString);
        errs!(precis_profiles::UsernameCaseMapped);
        errs!(precis_profiles::UsernameCasePreserved);
    }
    // hand-built error values at the extremes of their fields
    for cp in [0u32, 0x41, 0xD800, 0xDFFF, 0xFFFE, 0x10FFFF, 0x110000, u32::MAX] {
        for pos in [0usize, 1, usize::MAX / 2, usize::MAX] {
            for dp in DP::ALL {
                st.evaluations += 1;
                let mk = |k: u8| match k {
                    0 => Error::BadCodepoint(CodepointInfo::new(cp, pos, dp.to_impl())),
                    1 => Error::Unexpected(UnexpectedError::ContextRuleNotApplicable(CodepointInfo::new(cp, pos, dp.to_impl()))),
                    _ => Error::Unexpected(UnexpectedError::MissingContextRule(CodepointInfo::new(cp, pos, dp.to_impl()))),
                };
                for k in 0..3u8 {
                    if let Err(pm) = show_err(&mk(k)) {
                        st.violation("panic", || Case::new("error_value").n(cp as u64).n(pos as u64).n(k as u64), "Display / Debug of a hand-built error value".into(), format!("PANIC({})", pm));
                    }
                }
            }
        }
    }
    st.count("out:misc-surface");
}

// ---- calls made while a thread is being torn down ----------------------------------------
// An application that keeps a session in a thread-local and flushes it in `Drop` calls the
// library from a thread-local destructor. Destructors run in reverse registration order, so
// whether the library's own per-thread state (if it has any) is still alive depends on which
// was touched first. A panic there aborts the process: the scenario runs in a child.

const TLS_INPUTS: [&str; 8] = ["abc", "Abc D", " \u{e9}\u{3000}\u{ff22} ", "\u{5d0}1", "\u{aa}\u{2168}", "\u{628}\u{200c}\u{628}", "l\u{b7}l\u{30a2}\u{30fb}\u{661}", "a\u{9}"];

struct Session {
    input: usize,
}

/// every string operation, called directly: no harness wrapper may be involved here, because the
/// wrappers keep their own per-thread state, which is torn down in the same phase
fn raw_ops(s: &str) -> Vec<String> {
    use precis_core::profile::{PrecisFastInvocation, Profile, Rules};
    use precis_core::{FreeformClass, IdentifierClass, StringClass};
    use precis_profiles::{Nickname, OpaqueString, UsernameCaseMapped, UsernameCasePreserved};
    use std::panic::{catch_unwind, AssertUnwindSafe};
    let mut failed = Vec::new();
    let mut run = |name: &str, f: &mut dyn FnMut()| {
        if catch_unwind(AssertUnwindSafe(|| f())).is_err() {
            failed.push(name.to_string());
        }
    };
    macro_rules! prof {
        ($t:ty, $n:expr) => {{
            run(concat!($n, " instance"), &mut || {
                let p = <$t>::new();
                let _ = p.prepare(s);
                let _ = p.enforce(s);
                let _ = p.enforce(s.to_string());
                let _ = p.compare(s, s);
                let _ = p.compare(s, "a");
            });
            run(concat!($n, " static"), &mut || {
                let _ = <$t as PrecisFastInvocation>::prepare(s);
                let _ = <$t as PrecisFastInvocation>::enforce(s);
                let _ = <$t as PrecisFastInvocation>::compare(s, "a");
            });
            run(concat!($n, " rules"), &mut || {
                let p = <$t>::new();
                let _ = p.width_mapping_rule(s);
                let _ = p.additional_mapping_rule(s);
                let _ = p.case_mapping_rule(s);
                let _ = p.normalization_rule(s);
                let _ = p.directionality_rule(s);
                let _ = p.case_mapping_rule(s.to_string());
                let _ = p.normalization_rule(s.to_string());
            });
        }};
    }
    prof!(Nickname, "Nickname");
    prof!(OpaqueString, "OpaqueString");
    prof!(UsernameCaseMapped, "UsernameCaseMapped");
    prof!(UsernameCasePreserved, "UsernameCasePreserved");
    run("classes", &mut || {
        let _ = IdentifierClass::default().allows(s);
        let _ = FreeformClass::default().allows(s);
        for c in s.chars() {
            let _ = IdentifierClass::default().get_value_from_char(c);
            let _ = FreeformClass::default().get_value_from_codepoint(c as u32);
        }
    });
    run("context rules", &mut || {
        for (pos, c) in s.chars().enumerate() {
            if let Some(r) = precis_core::context::get_context_rule(c as u32) {
                let _ = r(s, pos);
            }
            for r in CtxRule::ALL {
                let _ = (r.func())(s, pos);
            }
        }
    });
    failed
}

impl Drop for Session {
    fn drop(&mut self) {
        let s = TLS_INPUTS[self.input % TLS_INPUTS.len()];
        for f in raw_ops(s) {
            println!("DTOR-PANIC {}", f);
        }
        println!("DTOR-DONE {}", self.input);
    }
}

thread_local! {
    static SESSION: std::cell::RefCell<Option<Session>> = const { std::cell::RefCell::new(None) };
}

/// child mode `pmc __tlsdtor <order> <input>`: order 0 = the session is created BEFORE the thread's
/// first library call, 1 = after it, 2 = the thread never calls the library outside the destructor
pub fn child_tls_dtor(order: usize, input: usize) -> i32 {
    std::panic::set_hook(Box::new(|_| {}));
    let h = std::thread::spawn(move || {
        let s = TLS_INPUTS[input % TLS_INPUTS.len()];
        let mut failed = 0usize;
        if order == 1 {
            failed += raw_ops(s).len();
        }
        SESSION.with(|c| *c.borrow_mut() = Some(Session { input }));
        if order == 0 {
            failed += raw_ops(s).len();
        }
        failed
    });
    match h.join() {
        Ok(n) => {
            println!("THREAD-JOINED {}", n);
            0
        }
        Err(_) => {
            println!("THREAD-PANICKED");
            0
        }
    }
}

pub fn tls_destructor_scenarios(st: &mut Stats) {
    let bin = match std::env::var("PMC_BIN").map(std::path::PathBuf::from).or_else(|_| std::env::current_exe()) {
        Ok(b) => b,
        Err(_) => return,
    };
    for order in 0..3usize {
        for input in 0..TLS_INPUTS.len() {
            st.states += 1;
            st.transitions += 1;
            st.evaluations += 1;
            let out = std::process::Command::new(&bin).arg("__tlsdtor").arg(order.to_string()).arg(input.to_string()).output();
            let (ok, text) = match &out {
                Ok(o) => {
                    let t = String::from_utf8_lossy(&o.stdout).to_string();
                    (
                        o.status.success() && t.contains("THREAD-JOINED 0") && t.contains(&format!("DTOR-DONE {}", input)) && !t.contains("DTOR-PANIC"),
                        format!("{:?}: {} {}", o.status, t.replace('\n', " | "), String::from_utf8_lossy(&o.stderr).lines().last().unwrap_or("")),
                    )
                }
                Err(e) => {
                    st.caps_hit.push(format!("MACHINERY: cannot run the thread-teardown child: {}", e));
                    return;
                }
            };
            if !ok {
                st.violation(
                    "panic",
                    || Case::new("tls_dtor").n(order as u64).n(input as u64).s(TLS_INPUTS[input]),
                    "every operation called from a thread-local destructor at thread exit returns (session created before / after / without an earlier library call on that thread)".into(),
                    text.chars().take(400).collect(),
                );
            }
        }
    }
    st.count("out:thread-teardown");
}

/// core operations plus the rule functions of the two profiles that have all five: what long or
/// numerous inputs go through (every code path of the subject, a third of the calls)
pub fn mid_ops(s: &str, chars: &[char], st: &mut Stats) {
    core_ops(s, chars, st);
    for p in [Prof::Ucm, Prof::Nick] {
        for rf in RuleFn::ALL {
            let r = rule(p, rf, s);
            st.evaluations += 1;
            if matches!(r, Out::Panic(_)) {
                bad(rf.name(), s, p.name(), &r, st);
            }
        }
    }
}

/// the operations that reach every table lookup: enforce and compare of each profile, allows
pub fn core_ops(s: &str, chars: &[char], st: &mut Stats) {
    watch::enter("ops", chars);
    for p in Prof::ALL {
        let r = enforce(p, s);
        st.evaluations += 1;
        if matches!(r, Out::Panic(_)) {
            bad("enforce", s, p.name(), &r, st);
        }
        let r = compare(p, s, "a");
        st.evaluations += 1;
        if matches!(r, OutB::Panic(_)) {
            bad("compare(s,a)", s, p.name(), &r, st);
        }
    }
    for c in [Class::Identifier, Class::Freeform] {
        let r = allows(c, s);
        st.evaluations += 1;
        if matches!(r, OutU::Panic(_)) {
            bad("allows", s, &format!("{:?}", c), &r, st);
        }
    }
    st.traces += 1;
}

fn ctx_positions(len: usize) -> Vec<usize> {
    let mut p: Vec<usize> = (0..=len + 1).collect();
    p.extend([usize::MAX - 1, usize::MAX, usize::MAX / 2, 1usize << 32]);
    p
}

pub fn all_ctx(s: &str, chars: &[char], st: &mut Stats) {
    watch::enter("context rules", chars);
    for pos in ctx_positions(chars.len()) {
        for r in CtxRule::ALL {
            let o = ctx_rule(r, s, pos);
            st.evaluations += 1;
            if matches!(o, CtxOut::Panic(_)) {
                let name = r.name().to_string();
                st.violation("panic", || Case::new("ctx").s(s).n(pos as u64).x(json!(name)), "Ok / NotApplicable / Undefined".into(), format!("{:?}", o));
            }
        }
    }
    watch::leave();
}

pub fn all_u32(v: u32, st: &mut Stats) {
    for c in [Class::Identifier, Class::Freeform] {
        let r = dp_cp(c, v);
        st.evaluations += 1;
        if let Err(p) = r {
            st.violation("panic", || Case::new("classify").n(v as u64), "a derived property value".into(), format!("PANIC({})", p));
        }
    }
    st.evaluations += 1;
    if let Err(p) = registry(v) {
        st.violation("panic", || Case::new("registry").n(v as u64), "Some/None".into(), format!("PANIC({})", p));
    }
    st.traces += 1;
}

fn templates(c: char) -> [Vec<char>; 12] {
    let sp = ' ';
    [
        vec![c],
        vec!['a', c],
        vec![c, 'a'],
        vec![c, sp],
        vec![sp, c],
        vec![c, sp, c],
        vec![c, sp, sp, 'a'],
        vec!['a', '\u{a0}', c],
        vec!['\u{5d0}', c],
        vec![c, '\u{301}'],
        vec!['\u{e9}', c, '\u{3000}'],
        vec![c, '\u{ff21}', c],
    ]
}

/// The deep pass: this binary was compiled without optimisation. A few long runs - a dozen
/// symbols repeated 5 000 times, and ZWNJ / ZWJ between such runs of transparent marks - go
/// through the main operations on threads whose stack is 256 KiB. Recursion whose depth follows the input overflows such a
/// stack after a few thousand frames (the process dies: "engine died" = violation of C01);
/// iteration does not care.
pub fn run_deep(_env: &Env, run: &Run) -> (Stats, Coverage) {
    const K: usize = 5000;
    const STACK: usize = 256 * 1024;
    let sigma: Vec<char> = [0x61u32, 0x20, 0xE9, 0x301, 0x5BF, 0x64B, 0x628, 0x5D0, 0x94D, 0x30FB, 0x660, 0xFF21]
        .iter()
        .filter_map(|c| char::from_u32(*c))
        .collect();
    let mut strs: Vec<String> = Vec::new();
    for &a in &sigma {
        let runs: String = std::iter::repeat(a).take(K).collect();
        strs.push(runs.clone());
        strs.push(format!("a{}", runs));
        strs.push(format!("{}\u{628}", runs));
    }
    // joiner sandwiches: D T^k ZWNJ T^k D, virama T^k ZWJ
    for t in ['\u{64b}', '\u{5bf}'] {
        let tr: String = std::iter::repeat(t).take(K).collect();
        strs.push(format!("\u{628}{}\u{200c}{}\u{628}", tr, tr));
        strs.push(format!("\u{628}{}\u{200c}\u{628}", tr));
        strs.push(format!("\u{628}\u{200c}{}\u{628}", tr));
        strs.push(format!("\u{94d}{}\u{200d}", tr));
    }
    let strs = std::sync::Arc::new(strs);
    let nthreads = 16usize;
    let handles: Vec<_> = (0..nthreads)
        .map(|t| {
            let strs = strs.clone();
            std::thread::Builder::new()
                .stack_size(STACK)
                .spawn(move || {
                    let mut st = Stats::default();
                    for (i, s) in strs.iter().enumerate() {
                        if i % nthreads != t {
                            continue;
                        }
                        st.states += 1;
                        st.transitions += 1;
                        let chars: Vec<char> = s.chars().collect();
                        // scans are slow without optimisation: this is not a hang
                        watch::with_allowance(300, || {
                            core_ops(s, &chars, &mut st);
                            for (p, rfs) in [(Prof::Ucm, RuleFn::ALL), (Prof::Nick, RuleFn::ALL)] {
                                for rf in rfs {
                                    let r = rule(p, rf, s);
                                    st.evaluations += 1;
                                    if matches!(r, Out::Panic(_)) {
                                        bad(rf.name(), s, p.name(), &r, &mut st);
                                    }
                                }
                            }
                            if let Some(j) = chars.iter().position(|c| *c == '\u{200c}' || *c == '\u{200d}') {
                                for r in CtxRule::ALL {
                                    let o = ctx_rule(r, s, j);
                                    st.evaluations += 1;
                                    if matches!(o, CtxOut::Panic(_)) {
                                        let name = r.name().to_string();
                                        st.violation("panic", || Case::new("ctx").s(s).n(j as u64).x(json!(name)), "Ok / NotApplicable / Undefined".into(), format!("{:?}", o));
                                    }
                                }
                            }
                        });
                        st.count("out:returned");
                    }
                    st
                })
                .expect("spawn")
        })
        .collect();
    let mut st = Stats::default();
    for h in handles {
        match h.join() {
            Ok(s) => st.merge(s),
            Err(_) => st.violation("panic", || Case::new("deep"), "the worker thread finishes".into(), "a worker thread of the deep pass panicked outside catch_unwind".into()),
        }
    }
    let cov = Coverage {
        rule: format!("deep pass: unoptimised build, {} KiB stacks; each of 12 symbols repeated {} times (alone, after 'a', before U+0628) and ZWNJ / ZWJ between runs of {} transparent marks; enforce + compare of every profile, allows of both classes, the rule functions of two profiles, every context rule at the joiner", STACK / 1024, K, K),
        alphabet: json!(sigma.iter().map(|c| format!("U+{:04X}", *c as u32)).collect::<Vec<_>>()),
        bound_completed: format!("{} labels", strs.len()),
        exhaustive: false,
        assumptions: vec![],
        extra: json!({"tier": run.tier.name()}),
    };
    (st, cov)
}

pub fn run(_env: &Env, run: &Run) -> (Stats, Coverage) {
    if deep() {
        return run_deep(_env, run);
    }
    // (a) every scalar value in 12 templates + next to each of its 16 other-plane aliases through every operation
    let mut st = cpsweep(|c, st| {
        for (k, t) in templates(c).iter().enumerate() {
            let s: String = t.iter().collect();
            // the five templates that differ only in where the spaces are share most of their paths
            if (3..8).contains(&k) {
                mid_ops(&s, t, st);
            } else {
                all_ops(&s, t, st);
            }
            st.count("out:returned");
        }
        st.nontrivial += 1;
        for a in alias_chars(c) {
            let t = [c, a];
            let s: String = t.iter().collect();
            core_ops(&s, &t, st);
        }
        // the next scalar value right behind it, and the same code point in a higher plane inside a
        // ZWNJ context (lookups that walk a table entry by entry run off its end here)
        if let Some(nx) = (c as u32 + 1..=0x10FFFF).find_map(char::from_u32) {
            for t in [[c, nx], [nx, c]] {
                let s: String = t.iter().collect();
                core_ops(&s, &t, st);
                for p in [Prof::Ucm, Prof::Nick] {
                    let r = rule(p, RuleFn::Dir, &s);
                    st.evaluations += 1;
                    if matches!(r, Out::Panic(_)) {
                        bad("directionality_rule", &s, p.name(), &r, st);
                    }
                }
            }
        }
        for a in alias_chars(c) {
            let t = ['\u{628}', '\u{200c}', c, a];
            let s: String = t.iter().collect();
            let o = ctx_rule(CtxRule::Zwnj, &s, 1);
            st.evaluations += 1;
            if matches!(o, CtxOut::Panic(_)) {
                st.violation("panic", || Case::new("ctx").s(&s).n(1).x(json!("rule_zero_width_nonjoiner")), "Ok / NotApplicable / Undefined".into(), format!("{:?}", o));
            }
            let r = allows(Class::Freeform, &s);
            st.evaluations += 1;
            if matches!(r, OutU::Panic(_)) {
                bad("allows", &s, "Freeform", &r, st);
            }
        }
        // cancellation: the owned rule functions see the bare pair; the prefixed forms go through
        // the profiles whose earlier rule rewrites that prefix
        for t in [[ '\u{130}', c], [c, '\u{1e9e}']] {
            let s: String = t.iter().collect();
            owned_rule_ops(&s, st);
        }
        for (k, t) in cancellation_templates(c).iter().enumerate() {
            let s: String = t.iter().collect();
            let profs: [Prof; 2] = if k < 2 { [Prof::Nick, Prof::Opaque] } else { [Prof::Ucm, Prof::Ucp] };
            for p in profs {
                let r = enforce(p, &s);
                st.evaluations += 1;
                if matches!(r, Out::Panic(_)) {
                    bad("enforce", &s, p.name(), &r, st);
                }
                let r = compare(p, &s, "a");
                st.evaluations += 1;
                if matches!(r, OutB::Panic(_)) {
                    bad("compare(s,a)", &s, p.name(), &r, st);
                }
            }
        }
        // derived property through the char entry point
        for cl in [Class::Identifier, Class::Freeform] {
            st.evaluations += 1;
            if let Err(p) = dp_char(cl, c) {
                st.violation("panic", || Case::new("classify_char").n(c as u64), "a derived property value".into(), format!("PANIC({})", p));
            }
        }
    });
    // (b) every u32 through the code point entry points
    let exhaustive_u32 = run.tier == Tier::Thorough;
    if exhaustive_u32 {
        st.merge(u32sweep(&[(0, u32::MAX)], |v, st| all_u32(v, st)));
    } else {
        st.merge(u32sweep(&[(0, 0x1FFFFF)], |v, st| all_u32(v, st)));
        let mut s2 = Stats::default();
        for v in u32_lattice().into_iter().filter(|v| *v > 0x1FFFFF) {
            s2.states += 1;
            s2.transitions += 1;
            all_u32(v, &mut s2);
        }
        st.merge(s2);
    }
    // (b') stabilize is public too: every function on a 3-element universe (two universes) x every
    // start x 6 Cow styles x 4 argument forms must return (the values are C13's business)
    {
        let k = 3usize;
        let nf = ((k + 2) as u64).pow(k as u32);
        let mut s3 = Stats::default();
        for idx in 0..nf {
            let f = crate::props::c13::decode(idx, k);
            for start in 0..k {
                for uni in 0..3u8 {
                    for style in 0..8u8 {
                        for form in 0..4u8 {
                            s3.states += 1;
                            s3.transitions += 1;
                            for errset in 0..3u8 {
                                crate::props::c13::check_fn(&f, k, start, style, form, uni, errset, &mut s3);
                            }
                        }
                    }
                }
            }
        }
        let panics = s3.counters.get("viol:panic").copied().unwrap_or(0);
        s3.violations.retain(|v| v.kind == "panic");
        s3.violation_count = panics;
        s3.counters.clear();
        if panics > 0 {
            s3.add("viol:panic", panics);
        }
        s3.count("out:stabilize-returned");
        st.merge(s3);
    }
    // (b'') default rule methods, printing and comparing of error values
    {
        let sig3 = crate::sig::rotated(_env, sigma01(), run.seed);
        let strs = all_strings(&sig3, 2);
        let mut s4 = Stats::default();
        misc_surface(&strs, &mut s4);
        st.merge(s4);
    }
    // (b3) the library called from a thread-local destructor while its thread exits
    if !lite() {
        let mut s5 = Stats::default();
        tls_destructor_scenarios(&mut s5);
        st.merge(s5);
    }
    // (c)+(d) string tree: all operations; context rules at every position for short strings
    let sigma = crate::sig::rotated(_env, sigma01(), run.seed);
    let n = run.tier.pick(3, 4);
    st.merge(strtree(&sigma, n, |chars, s, st| {
        all_ops(s, chars, st);
        owned_rule_ops(s, st);
        if chars.len() <= 3 {
            all_ctx(s, chars, st);
        }
        if chars.iter().any(|c| c.len_utf8() > 1) {
            st.nontrivial += 1;
        }
        st.count("out:returned");
    }));

    // structural families: pumped runs a^k b / b a^k / a^k b a (k around 8, 16, 32, 64 and, for a
    // few symbols, 128..1025) every ASCII character at every offset of 7..33-byte
    // ASCII strings (two fillers), alphabet symbols alone and in pairs inside 16..41-byte ASCII strings,
    // all of them at every address residue modulo 8 / 16 (sub-slices of a larger buffer)
    st.merge(run_structural(&sigma, run.tier, |s, st| {
        let chars: Vec<char> = s.chars().collect();
        if s.len() > 64 {
            mid_ops(s, &chars, st);
        } else {
            all_ops(s, &chars, st);
            owned_rule_ops(s, st);
        }
        st.count("out:returned");
    }));
    // diverse strings: up to 64 different accepted characters of one 64-block
    for class in [Class::Identifier, Class::Freeform] {
        let stairs = crate::props::rules::block_staircases(_env, class);
        st.merge(run_family(&stairs, |s, st| {
            let chars: Vec<char> = s.chars().collect();
            mid_ops(s, &chars, st);
            st.count("out:returned");
        }));
    }
    // same-buffer histories (caches keyed by the address and length of the argument)
    {
        let hs: Vec<char> = [0x61u32, 0x6C, 0xB7, 0xE9, 0x200D, 0x94D, 0x65E5, 0x20, 0xA0].iter().map(|c| char::from_u32(*c).unwrap()).collect();
        let strs = all_strings(&hs, 3);
        st.merge(same_buffer_pairs(&strs, |s, st| {
            let chars: Vec<char> = s.chars().collect();
            all_ops(s, &chars, st);
            all_ctx(s, &chars, st);
        }));
        // two-call histories: a context rule on A at p, then on B (same allocation, same byte length) at q >= p
        let hs2: Vec<char> = [0x6Cu32, 0xB7, 0xE9, 0x200D, 0x94D, 0x65E5].iter().map(|c| char::from_u32(*c).unwrap()).collect();
        let strs2 = all_strings(&hs2, 3);
        st.merge(crate::props::c03::two_call_histories(&strs2, |buf, a, p, b, q, st| {
            let la: Vec<u32> = a.chars().map(|c| c as u32).collect();
            let lb: Vec<u32> = b.chars().map(|c| c as u32).collect();
            for ra in crate::props::c03::rules_present(&la) {
                for rb in crate::props::c03::rules_present(&lb) {
                    buf.clear();
                    buf.push_str(a);
                    let _ = ctx_rule(ra, buf, p);
                    buf.clear();
                    buf.push_str(b);
                    let o = ctx_rule(rb, buf, q);
                    st.evaluations += 2;
                    if matches!(o, CtxOut::Panic(_)) {
                        let name = rb.name().to_string();
                        st.violation("panic", || Case::new("ctx2").s(a).s(b).n(p as u64).n(q as u64).x(json!([ra.name(), name])), "Ok / NotApplicable / Undefined".into(), format!("{:?}", o));
                    }
                }
            }
        }));
        // one character longer over the symbols whose encoded lengths differ (1, 2, 2, 3, 3 bytes)
        let hs4: Vec<char> = [0x6Cu32, 0xB7, 0xE9, 0x200D, 0x65E5].iter().map(|c| char::from_u32(*c).unwrap()).collect();
        let strs4: Vec<String> = all_strings(&hs4, 4).into_iter().filter(|s| s.chars().count() == 4).collect();
        st.merge(same_buffer_pairs(&strs4, |s, st| {
            let chars: Vec<char> = s.chars().collect();
            all_ctx(s, &chars, st);
            for c in [Class::Identifier, Class::Freeform] {
                let r = allows(c, s);
                st.evaluations += 1;
                if matches!(r, OutU::Panic(_)) {
                    bad("allows", s, &format!("{:?}", c), &r, st);
                }
            }
        }));
    }
    // the same histories on LONG labels (72-byte prefixes of every UTF-8 width, see C03 b4'): the
    // first call is `allows` of either class or a rule call inside the core of A, the second a
    // rule call inside the core of B or `allows` on B, A and B in the same allocation
    {
        use rayon::prelude::*;
        let long = crate::props::c03::long_history_labels();
        let mut by_len: std::collections::BTreeMap<usize, Vec<&(String, usize, usize)>> = std::collections::BTreeMap::new();
        for x in &long {
            by_len.entry(x.0.len()).or_default().push(x);
        }
        let groups: Vec<Vec<&(String, usize, usize)>> = by_len.into_values().filter(|g| g.len() >= 2).collect();
        let shards: Vec<Stats> = groups
            .par_iter()
            .map(|g| {
                let mut st = Stats::default();
                let mut buf = String::with_capacity(128);
                for a in g.iter() {
                    let la: Vec<u32> = a.0.chars().map(|c| c as u32).collect();
                    let ras = crate::props::c03::rules_present(&la);
                    if ras.is_empty() {
                        continue;
                    }
                    // first calls: 0 / 1 = allows, 2.. = (rule, position)
                    let mut firsts: Vec<(Option<CtxRule>, usize)> = vec![(None, 0), (None, 1)];
                    for &ra in &ras {
                        for p in a.1..a.1 + a.2 {
                            firsts.push((Some(ra), p));
                        }
                    }
                    for b in g.iter() {
                        if a.0 == b.0 {
                            continue;
                        }
                        let lb: Vec<u32> = b.0.chars().map(|c| c as u32).collect();
                        let rbs = crate::props::c03::rules_present(&lb);
                        for &(fr, fp) in &firsts {
                            for q in b.1..b.1 + b.2 {
                                for second in 0..=rbs.len() {
                                    st.states += 1;
                                    st.transitions += 2;
                                    st.evaluations += 2;
                                    buf.clear();
                                    buf.push_str(&a.0);
                                    match fr {
                                        Some(r) => {
                                            let _ = ctx_rule(r, &buf, fp);
                                        }
                                        None => {
                                            let _ = allows(if fp == 0 { Class::Identifier } else { Class::Freeform }, &buf);
                                        }
                                    }
                                    buf.clear();
                                    buf.push_str(&b.0);
                                    if second < rbs.len() {
                                        let o = ctx_rule(rbs[second], &buf, q);
                                        if matches!(o, CtxOut::Panic(_)) {
                                            let names = [fr.map(|r| r.name()).unwrap_or("allows").to_string(), rbs[second].name().to_string()];
                                            st.violation("panic", || Case::new("ctx2").s(&a.0).s(&b.0).n(fp as u64).n(q as u64).x(json!(names)), "Ok / NotApplicable / Undefined".into(), format!("{:?}", o));
                                        }
                                    } else if q == b.1 {
                                        let r = allows(Class::Identifier, &buf);
                                        if matches!(r, OutU::Panic(_)) {
                                            bad("allows", &buf, "Identifier (after a call on another label in the same allocation)", &r, &mut st);
                                        }
                                    }
                                }
                            }
                        }
                    }
                }
                st.count("out:long-two-call-histories");
                st
            })
            .collect();
        for x in shards {
            st.merge(x);
        }
    }
    st.sample(json!({"input": ["U+00E9", " "], "ops": "4 profiles x (prepare, enforce, static prepare/enforce, 4 compare forms, 5 Rules methods) + allows x 2", "expected": "no panic"}));
    st.sample(json!({"input": ["U+200C"], "op": "rule_zero_width_nonjoiner", "position": "usize::MAX", "expected": "Undefined, no arithmetic overflow"}));
    st.sample(json!({"input": "0xFFFFFFFF", "op": "get_value_from_codepoint / get_context_rule", "expected": "a value, no panic"}));
    let cov = Coverage {
        rule: format!("(a) every scalar value in 12 templates (alone, next to ASCII, before/after/around spaces, after NBSP, after a Hebrew letter, before a combining mark, between a 2-byte letter and U+3000, around a fullwidth letter) through 54 operations, plus cancellation templates (next to a mapping that grows and one that shrinks in UTF-8: bare through the 20 rule functions with owned Strings, behind a space / a fullwidth letter through enforce and compare of the profiles that rewrite that prefix): 4 profiles x (prepare, enforce, static prepare, static enforce, compare(s,s), compare(s,a), compare(a,s), static compare, 5 Rules methods) + allows of both classes; (b) every u32 in {} through get_value_from_codepoint of both classes and get_context_rule; (c) every string of length <= {} over a {}-symbol alphabet with one member of every behaviour class and every UTF-8 length, all operations; (c') pumped runs a^k b, b a^k, a^k b a for k in 6..9, 15..17, 30..33, 63..65 over the alphabet (127..1025 over 6 symbols) every ASCII character at every offset of 7..33-byte
    // ASCII strings (two fillers), alphabet symbols alone and in pairs inside 16..41-byte ASCII strings,
    // all of them at every address residue modulo 8 / 16 (sub-slices of a larger buffer), all operations; (c'') every ordered pair of equal-byte-length strings of length <= 3 over 9 symbols run one after the other in the same allocation; (d) the eight context rule functions on every such string of length <= 3 at positions 0..=len+1, usize::MAX-1, usize::MAX, usize::MAX/2, 2^32; oracle: no unwind (built with overflow checks and debug assertions on), no case running longer than 10 s (watchdog); non-trivial = strings with a multi-byte character", if exhaustive_u32 { "0..=u32::MAX" } else { "0..=0x1FFFFF + lattice" }, n, sigma.len()),
        alphabet: json!(sigma.iter().map(|c| format!("U+{:04X}", *c as u32)).collect::<Vec<_>>()),
        bound_completed: format!("sweep 1,112,064 x (7 templates x 54 ops + 5 templates x 20 ops + 2 x 40 + 4 x 4 cancellation ops + neighbours and aliases); tree length <= {} ({} strings)", n, tree_size(sigma.len(), n)),
        exhaustive: false,
        assumptions: vec!["allocation failure is not explored".into(), "a slicing panic depends only on (predicate class, UTF-8 length, position), all of which the alphabet x length bound enumerates".into()],
        extra: json!({}),
    };
    (st, cov)
}

pub fn replay(_env: &Env, case: &Case) -> Vec<Violation> {
    let mut st = Stats::default();
    match case.op.as_str() {
        "op" | "ops" => {
            let s = case.str_at(0);
            let chars: Vec<char> = s.chars().collect();
            let mut all = Stats::default();
            all_ops(&s, &chars, &mut all);
            owned_rule_ops(&s, &mut all);
            // keep the violations of the same operation when one is named
            st.violations = all.violations.into_iter().filter(|v| case.op == "ops" || v.case.extra == case.extra).collect();
        }
        "default_rule" | "error_value" => {
            let strs = if case.strs.is_empty() { vec![] } else { vec![case.str_at(0).to_string()] };
            misc_surface(&strs, &mut st);
        }
        "tls_dtor" => {
            let mut all = Stats::default();
            tls_destructor_scenarios(&mut all);
            st.violations = all.violations.into_iter().filter(|v| v.case.nums == case.nums).collect();
        }
        "stabilize" => {
            st.violations = crate::props::c13::replay(_env, case).into_iter().filter(|v| v.kind == "panic").collect();
        }
        "ctx" | "context rules" => {
            let s = case.str_at(0);
            let chars: Vec<char> = s.chars().collect();
            let mut all = Stats::default();
            all_ctx(&s, &chars, &mut all);
            st.violations = all.violations.into_iter().filter(|v| case.op != "ctx" || (v.case.extra == case.extra && v.case.nums == case.nums)).collect();
        }
        "ctx2" if case.strs.len() == 2 && case.nums.len() == 2 => {
            let (a, b) = (case.str_at(0), case.str_at(1));
            let ra = case.extra.get(0).and_then(|v| v.as_str()).and_then(CtxRule::from_name);
            let rb = case.extra.get(1).and_then(|v| v.as_str()).and_then(CtxRule::from_name);
            let first_is_allows = case.extra.get(0).and_then(|v| v.as_str()) == Some("allows");
            if let (true, Some(rb)) = (ra.is_some() || first_is_allows, rb) {
                let mut buf = String::with_capacity(128);
                buf.push_str(&a);
                match ra {
                    Some(ra) => {
                        let _ = ctx_rule(ra, &buf, case.nums[0] as usize);
                    }
                    None => {
                        let _ = allows(if case.nums[0] == 0 { Class::Identifier } else { Class::Freeform }, &buf);
                    }
                }
                buf.clear();
                buf.push_str(&b);
                let o = ctx_rule(rb, &buf, case.nums[1] as usize);
                if matches!(o, CtxOut::Panic(_)) {
                    st.violation("panic", || case.clone(), "Ok / NotApplicable / Undefined".into(), format!("{:?}", o));
                }
            }
        }
        "classify" | "registry" => {
            if let Some(v) = case.nums.first() {
                let mut all = Stats::default();
                all_u32(*v as u32, &mut all);
                st.violations = all.violations.into_iter().filter(|x| x.case.op == case.op).collect();
            }
        }
        "classify_char" => {
            if let Some(c) = case.nums.first().and_then(|v| char::from_u32(*v as u32)) {
                for cl in [Class::Identifier, Class::Freeform] {
                    if let Err(p) = dp_char(cl, c) {
                        st.violation("panic", || case.clone(), "a derived property value".into(), format!("PANIC({})", p));
                    }
                }
            }
        }
        _ => {}
    }
    st.violations
}
