//! C07 - compare is equality of comparison forms: an equivalence with strict errors.

use crate::engine::*;
use crate::env::Env;
use crate::pipeline::*;
use crate::subject::{compare, enforce, Out, OutB, Prof};
use rayon::prelude::*;
use serde_json::json;

pub fn sigma07() -> Vec<char> {
    [
        0x61u32, 0x41, 0xFF21, 0xFF41, // a A fullwidth-A fullwidth-a
        0x20, 0xA0, // spaces
        0xE9, 0x65, 0x301, // canonical equivalents
        0xFB01, 0x66, 0x69, // compatibility equivalents
        0x3A3, 0x3C3, 0x3C2, // Sigma, sigma, final sigma
        0x1C5, 0x1C6, 0x1F88, 0x1F80, // titlecase and their lowercase forms
        0x13A0, 0x5D0, // Cherokee, Hebrew
        0x09, 0x378, // invalid everywhere
        0x1FF21, 0x13000, // bit-16 aliases of fullwidth A (unassigned) and of U+3000 (an assigned letter)
    ]
    .iter()
    .map(|c| char::from_u32(*c).unwrap())
    .collect()
}

fn strings(alpha: &[char], n: usize) -> Vec<String> {
    let mut out = vec![String::new()];
    let mut frontier = vec![String::new()];
    for _ in 0..n {
        let mut next = Vec::new();
        for s in &frontier {
            for c in alpha {
                let mut t = s.clone();
                t.push(*c);
                next.push(t);
            }
        }
        out.extend(next.iter().cloned());
        frontier = next;
    }
    out
}

/// acceptable compare results given the canonical forms of both operands
fn expected(ca: &Expect, cb: &Expect) -> Vec<OutB> {
    let errs = |e: &Expect| -> Vec<OutB> {
        let mut v = Vec::new();
        for o in std::iter::once(&e.primary).chain(e.alt.iter()) {
            match o {
                Out::Err(x) => v.push(OutB::Err(x.clone())),
                Out::Panic(p) => v.push(OutB::Panic(p.clone())),
                _ => {}
            }
        }
        v
    };
    match (&ca.primary, &cb.primary) {
        (Out::Ok(x), Out::Ok(y)) => vec![OutB::Ok(x == y)],
        (Out::Ok(_), _) => errs(cb),
        _ => errs(ca),
    }
}

fn plain(o: Out) -> Expect {
    Expect { primary: o, alt: None, step: 0, changed_steps: 0 }
}

/// canonical form used as oracle: the implementation's own enforce for the
/// username/password profiles (that *is* the property), the reference
/// comparison pipeline for Nickname.
pub fn canon(env: &Env, p: Prof, s: &str) -> Expect {
    match p {
        Prof::Nick => ref_canon(env, p, s),
        _ => plain(enforce(p, s)),
    }
}

pub fn check_pair(p: Prof, a: &str, b: &str, ca: &Expect, cb: &Expect, st: &mut Stats) -> OutB {
    check_pair_with(p, a, b, ca, cb, &|| Case::new("compare").s(a).s(b).x(json!(p.name())), st)
}

/// Aliased operands: both operands are slices `w[i1..j1]` and `w[i2..j2]` of ONE buffer (a field and
/// a prefix of the same protocol line, a name and a longer name that starts with it). The answer
/// must be the one the same contents give in separate allocations.
pub fn check_aliased(env: &Env, p: Prof, w: &str, st: &mut Stats) {
    let mut cuts: Vec<usize> = w.char_indices().map(|(i, _)| i).collect();
    cuts.push(w.len());
    let mut subs: Vec<(usize, usize)> = Vec::new();
    for (x, &i) in cuts.iter().enumerate() {
        for &j in &cuts[x..] {
            subs.push((i, j));
        }
    }
    let canons: Vec<Expect> = subs.iter().map(|&(i, j)| canon(env, p, &w[i..j])).collect();
    for (x, &(i1, j1)) in subs.iter().enumerate() {
        for (y, &(i2, j2)) in subs.iter().enumerate() {
            st.transitions += 1;
            let mk = || Case::new("compare_aliased").s(w).n(i1 as u64).n(j1 as u64).n(i2 as u64).n(j2 as u64).x(json!(p.name()));
            check_pair_with(p, &w[i1..j1], &w[i2..j2], &canons[x], &canons[y], &mk, st);
        }
    }
    st.count("out:aliased-operands");
}

pub fn check_pair_with(p: Prof, a: &str, b: &str, ca: &Expect, cb: &Expect, mk: &dyn Fn() -> Case, st: &mut Stats) -> OutB {
    let got = compare(p, a, b);
    st.evaluations += 1;
    st.traces += 1;
    let exp = expected(ca, cb);
    if !exp.contains(&got) {
        let kind = match (&got, exp.first()) {
            (OutB::Panic(_), _) => "panic",
            (OutB::Ok(_), Some(OutB::Err(_))) => "error_swallowed",
            (OutB::Err(_), Some(OutB::Err(_))) => "wrong_operand_error",
            (OutB::Ok(true), _) => "wrong_equal",
            (OutB::Ok(false), _) => "wrong_different",
            _ => "compare",
        };
        st.violation(kind, mk, exp.iter().map(show_outb).collect::<Vec<_>>().join(" or "), show_outb(&got));
    }
    got
}

pub fn run(env: &Env, run: &Run) -> (Stats, Coverage) {
    let sigma = crate::sig::rotated(env, sigma07(), run.seed);
    let n = run.tier.pick(2, 3);
    let mut strs = strings(&sigma, n);
    // a deeper layer over the symbols that interact most (case x width x space x normalisation x error)
    let reduced: Vec<char> = [0x61u32, 0x41, 0xFF21, 0x20, 0xA0, 0x65, 0x301, 0xE9, 0x1C5, 0x1C6, 0x09, 0xFB01]
        .iter()
        .take(run.tier.pick(12, 8))
        .map(|c| char::from_u32(*c).unwrap())
        .collect();
    for s in strings(&reduced, n + 1) {
        if s.chars().count() == n + 1 {
            strs.push(s);
        }
    }
    // length layer: the same character repeated k times for lengths around every power-of-two
    // boundary a length computation could wrap at; all ordered pairs of these are compared too
    let lens: Vec<usize> = vec![1, 2, 3, 127, 128, 129, 255, 256, 257, 258, 511, 512, 513, 1023, 1025, 65535, 65536, 65537];
    let mut long_strs: Vec<String> = Vec::new();
    for (ch, maxlen) in [('a', usize::MAX), ('A', 1025), ('\u{e9}', 1025), ('\u{65e5}', 513)] {
        for &k in &lens {
            if k <= maxlen {
                long_strs.push(std::iter::repeat(ch).take(k).collect());
            }
        }
    }
    let mut st = Stats::default();
    let mut accepted_pairs_true = 0u64;
    for p in Prof::ALL {
        let canons: Vec<Expect> = long_strs.par_iter().map(|s| canon(env, p, s)).collect();
        let shards: Vec<Stats> = (0..long_strs.len())
            .into_par_iter()
            .map(|i| {
                let mut st = Stats::default();
                st.states += 1;
                for j in 0..long_strs.len() {
                    st.transitions += 1;
                    let got = check_pair(p, &long_strs[i], &long_strs[j], &canons[i], &canons[j], &mut st);
                    if got == OutB::Ok(true) && i != j {
                        st.nontrivial += 1;
                    }
                    st.count("out:length-layer-pair");
                }
                st
            })
            .collect();
        for s in shards {
            st.merge(s);
        }
    }
    // case variants: every string of length <= 3 over letters in both cases and the characters whose
    // context rules look at the case-sensitive neighbours, against every other such string - a valid
    // label next to its own invalid variant, in both orders, through instance and static API
    {
        let cv: Vec<char> = [0x6Cu32, 0x4C, 0xB7, 0x61, 0x41, 0x3B1, 0x391, 0x375, 0xE9, 0xC9].iter().map(|c| char::from_u32(*c).unwrap()).collect();
        let cs = strings(&cv, 3);
        for p in Prof::ALL {
            let canons: Vec<Expect> = cs.par_iter().map(|s| canon(env, p, s)).collect();
            let shards: Vec<Stats> = (0..cs.len())
                .into_par_iter()
                .map(|i| {
                    let mut st = Stats::default();
                    st.states += 1;
                    for j in 0..cs.len() {
                        // only pairs that are equal up to case folding are interesting here
                        if cs[i].to_lowercase() != cs[j].to_lowercase() {
                            continue;
                        }
                        st.transitions += 1;
                        check_pair(p, &cs[i], &cs[j], &canons[i], &canons[j], &mut st);
                        let got = crate::subject::compare_static(p, &cs[i], &cs[j]);
                        st.evaluations += 1;
                        let exp = expected(&canons[i], &canons[j]);
                        if !exp.contains(&got) {
                            st.violation(
                                "static_compare",
                                || Case::new("compare_static").s(&cs[i]).s(&cs[j]).x(json!(p.name())),
                                exp.iter().map(show_outb).collect::<Vec<_>>().join(" or "),
                                show_outb(&got),
                            );
                        }
                    }
                    st
                })
                .collect();
            for x in shards {
                st.merge(x);
            }
        }
    }
    // canonically equivalent spellings of every decomposable character, next to its own base
    // character: all ordered pairs within each group
    {
        let groups = crate::props::rules::decomposition_groups(env);
        let shards: Vec<Stats> = groups
            .par_iter()
            .map(|g0| {
                let mut st = Stats::default();
                st.states += 1;
                // + the upper- and lower-cased variants of every spelling (J + caron against
                // j-caron: only the lowercase pair has a precomposed form, so the order of case
                // mapping and normalisation inside compare shows)
                let mut g: Vec<String> = g0.clone();
                for s in g0.iter() {
                    for v in [s.to_uppercase(), s.to_lowercase()] {
                        if !g.contains(&v) {
                            g.push(v);
                        }
                    }
                }
                for p in Prof::ALL {
                    let canons: Vec<Expect> = g.iter().map(|s| canon(env, p, s)).collect();
                    for i in 0..g.len() {
                        for j in 0..g.len() {
                            st.transitions += 1;
                            let got = check_pair(p, &g[i], &g[j], &canons[i], &canons[j], &mut st);
                            if got == OutB::Ok(true) && i != j {
                                st.nontrivial += 1;
                            }
                        }
                    }
                }
                st.count("out:decomposition-group");
                st
            })
            .collect();
        for s in shards {
            st.merge(s);
        }
    }
    for p in Prof::ALL {
        let canons: Vec<Expect> = strs.par_iter().map(|s| canon(env, p, s)).collect();
        let shards: Vec<Stats> = (0..strs.len())
            .into_par_iter()
            .map(|i| {
                let mut st = Stats::default();
                st.states += 1;
                for j in 0..strs.len() {
                    st.transitions += 1;
                    let got = check_pair(p, &strs[i], &strs[j], &canons[i], &canons[j], &mut st);
                    match got {
                        OutB::Ok(true) => {
                            st.count("out:equal");
                            if strs[i] != strs[j] {
                                st.nontrivial += 1;
                            }
                        }
                        OutB::Ok(false) => st.count("out:different"),
                        OutB::Err(_) => {
                            if matches!(canons[i].primary, Out::Ok(_)) {
                                st.count("out:second-operand-error")
                            } else {
                                st.count("out:first-operand-error")
                            }
                        }
                        OutB::Panic(_) => st.count("out:panic"),
                    }
                }
                st
            })
            .collect();
        for s in shards {
            st.merge(s);
        }
        // aliasing layer: all pairs of sub-slices of each string, presented as slices of one buffer
        let shards: Vec<Stats> = strs
            .par_iter()
            .map(|w| {
                let mut st = Stats::default();
                st.states += 1;
                check_aliased(env, p, w, &mut st);
                st
            })
            .collect();
        for s in shards {
            st.merge(s);
        }
        // equivalence laws, checked directly on the implementation's answers
        let m = strs.len().min(run.tier.pick(150, 400));
        let matrix: Vec<Vec<OutB>> = (0..m)
            .into_par_iter()
            .map(|i| (0..m).map(|j| compare(p, &strs[i], &strs[j])).collect())
            .collect();
        st.evaluations += (m * m) as u64;
        for i in 0..m {
            // reflexive on accepted strings
            let acc = matches!(canons[i].primary, Out::Ok(_));
            if acc && matrix[i][i] != OutB::Ok(true) {
                st.violation("not_reflexive", || Case::new("laws").s(&strs[i]).s(&strs[i]).x(json!(p.name())), "Ok(true)".into(), show_outb(&matrix[i][i]));
            }
            for j in 0..m {
                st.traces += 1;
                let (x, y) = (&matrix[i][j], &matrix[j][i]);
                let sym = match (x, y) {
                    (OutB::Ok(a), OutB::Ok(b)) => a == b,
                    (OutB::Err(_), OutB::Err(_)) => true,
                    _ => false,
                };
                if !sym {
                    st.violation("not_symmetric", || Case::new("laws").s(&strs[i]).s(&strs[j]).x(json!(p.name())), format!("compare(b,a) consistent with compare(a,b)={}", show_outb(x)), show_outb(y));
                }
                if *x == OutB::Ok(true) {
                    if i != j {
                        accepted_pairs_true += 1;
                    }
                    for k in 0..m {
                        if matrix[j][k] == OutB::Ok(true) && matrix[i][k] != OutB::Ok(true) {
                            st.violation(
                                "not_transitive",
                                || Case::new("laws3").s(&strs[i]).s(&strs[j]).s(&strs[k]).x(json!(p.name())),
                                "compare(a,c)=Ok(true) since compare(a,b)=compare(b,c)=Ok(true)".into(),
                                show_outb(&matrix[i][k]),
                            );
                        }
                    }
                }
            }
        }
    }
    st.sample(json!({"profile": "Nickname", "a": ["U+1F88"], "b": ["U+1F80"], "expected": "Ok(true): titlecase letter lower-cases to the same form"}));
    st.sample(json!({"profile": "Nickname", "a": ["a", "U+00A0", "A"], "b": ["A", " ", " ", "a"], "expected": "Ok(true)"}));
    st.sample(json!({"profile": "UsernameCaseMapped", "a": ["U+0009"], "b": ["U+0378"], "expected": "Err(BadCodepoint{0x9,0,Disallowed}) - the first operand's error"}));
    st.sample(json!({"profile": "OpaqueString", "a": ["e", "U+0301"], "b": ["U+00E9"], "expected": "Ok(true)"}));
    let cov = Coverage {
        rule: format!("all ordered pairs of the {} strings of length <= {} over 25 symbols (plus all strings one longer over the first 12 (quick) / 8 (thorough) interaction symbols) (case, width, spacing, canonical and compatibility variants of the same names, invalid strings) x 4 profiles, plus all ordered pairs of a, A, U+00E9, U+65E5 each repeated k times for k around 2^7, 2^8, 2^9, 2^10, 2^16 (length layer), plus all pairs equal up to case folding among the strings of length <= 3 over 10 case-sensitive symbols (instance and static API), plus all ordered pairs of the canonically equivalent spellings of every decomposable character in 4 contexts, plus, for every string, all ordered pairs of its sub-slices presented as two slices of ONE buffer (aliased operands: shared start, shared end, overlapping, identical); oracle: usernames/OpaqueString = the implementation's own enforce on each operand (first operand's error first), Nickname = reference comparison pipeline (validate, space rule, lowercase, NFKC, iterated per RFC 8264 s.7); reflexivity/symmetry/transitivity checked directly on the first {} strings (all triples); non-trivial = distinct strings that compare equal", strs.len(), n, strs.len().min(run.tier.pick(150, 400))),
        alphabet: json!(sigma.iter().map(|c| format!("U+{:04X}", *c as u32)).collect::<Vec<_>>()),
        bound_completed: format!("{} strings, {} ordered pairs x 4 profiles", strs.len(), strs.len() * strs.len()),
        exhaustive: false,
        assumptions: vec!["for the username/password profiles the canonical form is whatever enforce returns (C04/C05 decide whether that is right)".into()],
        extra: json!({"distinct_pairs_equal_in_law_window": accepted_pairs_true}),
    };
    (st, cov)
}

pub fn replay(env: &Env, case: &Case) -> Vec<Violation> {
    let mut st = Stats::default();
    let p = match case.extra.as_str().and_then(Prof::from_name) {
        Some(p) => p,
        None => return vec![],
    };
    match case.op.as_str() {
        "compare" => {
            let (a, b) = (case.str_at(0), case.str_at(1));
            check_pair(p, &a, &b, &canon(env, p, &a), &canon(env, p, &b), &mut st);
        }
        "compare_static" => {
            let (a, b) = (case.str_at(0), case.str_at(1));
            let got = crate::subject::compare_static(p, &a, &b);
            let exp = expected(&canon(env, p, &a), &canon(env, p, &b));
            if !exp.contains(&got) {
                st.violation("static_compare", || case.clone(), exp.iter().map(show_outb).collect::<Vec<_>>().join(" or "), show_outb(&got));
            }
        }
        "compare_aliased" if case.nums.len() == 4 => {
            let w = case.str_at(0);
            let mut all = Stats::default();
            check_aliased(env, p, &w, &mut all);
            st.violations = all.violations.into_iter().filter(|v| v.case.nums == case.nums).collect();
        }
        "laws" => {
            let (a, b) = (case.str_at(0), case.str_at(1));
            let x = compare(p, &a, &b);
            let y = compare(p, &b, &a);
            if a == b {
                if matches!(canon(env, p, &a).primary, Out::Ok(_)) && x != OutB::Ok(true) {
                    st.violation("not_reflexive", || case.clone(), "Ok(true)".into(), show_outb(&x));
                }
            } else {
                let sym = match (&x, &y) {
                    (OutB::Ok(a), OutB::Ok(b)) => a == b,
                    (OutB::Err(_), OutB::Err(_)) => true,
                    _ => false,
                };
                if !sym {
                    st.violation("not_symmetric", || case.clone(), format!("compare(b,a) consistent with compare(a,b)={}", show_outb(&x)), show_outb(&y));
                }
            }
        }
        "laws3" => {
            let (a, b, c) = (case.str_at(0), case.str_at(1), case.str_at(2));
            if compare(p, &a, &b) == OutB::Ok(true) && compare(p, &b, &c) == OutB::Ok(true) {
                let z = compare(p, &a, &c);
                if z != OutB::Ok(true) {
                    st.violation("not_transitive", || case.clone(), "compare(a,c)=Ok(true) since compare(a,b)=compare(b,c)=Ok(true)".into(), show_outb(&z));
                }
            }
        }
        _ => {}
    }
    st.violations
}
