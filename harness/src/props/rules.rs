//! Shared driver for the rule-level properties C10, C11, C12.

use crate::engine::*;
use crate::pipeline::show_out;
use crate::subject::{rule, rule_owned, rule_owned_roomy, Out, Prof, RuleFn};
use serde_json::json;

/// Run `prof.rulefn(s)` and compare with the expected string; then check
/// idempotence on the implementation's own output when `idem` is set.
pub fn check_rule_fn(p: Prof, r: RuleFn, s: &str, expected: &str, idem: bool, st: &mut Stats) {
    let got = rule(p, r, s);
    st.evaluations += 1;
    st.traces += 1;
    let mk = || Case::new("rulefn").s(s).x(json!([p.name(), r.name()]));
    // same content whether the argument is borrowed or owned
    let got_owned = rule_owned(p, r, s);
    st.evaluations += 1;
    if got_owned != got {
        st.violation("owned_vs_borrowed", mk, format!("String argument gives what &str gives: {}", show_out(&got)), show_out(&got_owned));
    }
    let got_roomy = rule_owned_roomy(p, r, s);
    st.evaluations += 1;
    if got_roomy != got {
        st.violation("owned_vs_borrowed", mk, format!("String argument with spare capacity gives what &str gives: {}", show_out(&got)), show_out(&got_roomy));
    }
    match &got {
        Out::Ok(o) if o == expected => {
            if idem {
                let again = rule(p, r, o);
                st.evaluations += 1;
                st.traces += 1;
                if again != Out::Ok(o.clone()) {
                    st.violation("not_idempotent", mk, format!("f(f(s)) = f(s) = {}", crate::subject::show(o)), show_out(&again));
                }
            }
        }
        Out::Panic(_) => st.violation("panic", mk, format!("Ok({})", crate::subject::show(expected)), show_out(&got)),
        _ => st.violation("rule", mk, format!("Ok({})", crate::subject::show(expected)), show_out(&got)),
    }
    if expected == s {
        st.count("out:unchanged");
    } else {
        st.count("out:changed");
    }
}

pub fn chars_of(v: &[u32]) -> Vec<char> {
    v.iter().map(|c| char::from_u32(*c).unwrap()).collect()
}
