//! Shared driver for the rule-level properties C10, C11, C12.

use crate::engine::*;
use crate::pipeline::show_out;
use crate::subject::{rule, rule_owned, rule_owned_roomy, Out, Prof, RuleFn};
use serde_json::json;

/// Run `prof.rulefn(s)` and compare with the expected string; then check
/// idempotence on the implementation's own output when `idem` is set.
pub fn check_rule_fn(p: Prof, r: RuleFn, s: &str, expected: &str, idem: bool, st: &mut Stats) {
    let got = rule(p, r, s);
    st.evaluations += 1;
    st.traces += 1;
    let mk = || Case::new("rulefn").s(s).x(json!([p.name(), r.name()]));
    // same content whether the argument is borrowed or owned
    let got_owned = rule_owned(p, r, s);
    st.evaluations += 1;
    if got_owned != got {
        st.violation("owned_vs_borrowed", mk, format!("String argument gives what &str gives: {}", show_out(&got)), show_out(&got_owned));
    }
    let got_roomy = rule_owned_roomy(p, r, s);
    st.evaluations += 1;
    if got_roomy != got {
        st.violation("owned_vs_borrowed", mk, format!("String argument with spare capacity gives what &str gives: {}", show_out(&got)), show_out(&got_roomy));
    }
    match &got {
        Out::Ok(o) if o == expected => {
            if idem {
                let again = rule(p, r, o);
                st.evaluations += 1;
                st.traces += 1;
                if again != Out::Ok(o.clone()) {
                    st.violation("not_idempotent", mk, format!("f(f(s)) = f(s) = {}", crate::subject::show(o)), show_out(&again));
                }
            }
        }
        Out::Panic(_) => st.violation("panic", mk, format!("Ok({})", crate::subject::show(expected)), show_out(&got)),
        _ => st.violation("rule", mk, format!("Ok({})", crate::subject::show(expected)), show_out(&got)),
    }
    if expected == s {
        st.count("out:unchanged");
    } else {
        st.count("out:changed");
    }
}

pub fn chars_of(v: &[u32]) -> Vec<char> {
    v.iter().map(|c| char::from_u32(*c).unwrap()).collect()
}

/// Every canonically decomposable character of UnicodeData 16.0 as a family of strings: its
/// full and its direct decomposition and the character itself - alone, followed by its own base
/// character, preceded by it, and between two ASCII letters. (A base of a right-to-left script
/// thereby gets a right-to-left neighbour: normalisation and the later rules meet.)
pub fn decomposition_family(env: &crate::env::Env) -> Vec<String> {
    let mut out: Vec<String> = decomposition_groups(env).into_iter().flatten().collect();
    out.sort();
    out.dedup();
    out
}

/// the same strings grouped: each group holds canonically equivalent spellings (full
/// decomposition, direct decomposition, the character itself) in one context
pub fn decomposition_groups(env: &crate::env::Env) -> Vec<Vec<String>> {
    fn decompose(env: &crate::env::Env, cp: u32, out: &mut Vec<u32>) {
        match env.ud16.get(cp) {
            Some(e) if e.dtag.is_empty() && !e.dmap.is_empty() && e.start == e.end => {
                for d in &e.dmap {
                    decompose(env, *d, out);
                }
            }
            _ => out.push(cp),
        }
    }
    let mut out: Vec<Vec<String>> = Vec::new();
    for e in env.ud16.entries.iter().filter(|e| e.start == e.end && e.dtag.is_empty() && !e.dmap.is_empty()) {
        let mut full = Vec::new();
        decompose(env, e.start, &mut full);
        let base = full[0];
        let seqs = [full.clone(), e.dmap.clone(), vec![e.start]];
        for (pre, post) in [(vec![], vec![]), (vec![], vec![base]), (vec![base], vec![]), (vec![0x61u32], vec![0x62u32])] {
            let mut g: Vec<String> = seqs
                .iter()
                .map(|seq| {
                    let mut v = pre.clone();
                    v.extend_from_slice(seq);
                    v.extend_from_slice(&post);
                    crate::subject::from_cps(&v)
                })
                .collect();
            g.dedup();
            out.push(g);
        }
    }
    out
}

/// Thorough tier only: one label of more than 4 GiB - "abcdefgh", 2^32 times 'a', then `tail` -
/// through one rule function. Offsets kept in 32 bits wrap here. The expectation is assembled
/// from the reference's answer on the short analogue ("abcdefgh" + "a" + tail), which is sound
/// for rules that treat a run of 'a' as opaque filler (all five do). Skipped, with a note, when
/// the machine does not have the memory.
pub fn check_rule_giga<F: Fn(&str) -> String>(p: Prof, r: RuleFn, tail: &str, reference: F, st: &mut Stats) {
    let avail_kib: u64 = std::fs::read_to_string("/proc/meminfo")
        .ok()
        .and_then(|t| t.lines().find(|l| l.starts_with("MemAvailable:")).and_then(|l| l.split_whitespace().nth(1).and_then(|x| x.parse().ok())))
        .unwrap_or(0);
    if avail_kib < 20 * 1024 * 1024 {
        st.note(format!("4 GiB label through {}: skipped, only {} MiB of memory available", r.name(), avail_kib / 1024));
        return;
    }
    const N: usize = 1 << 32;
    let head = "abcdefgh";
    let short_in = format!("{}a{}", head, tail);
    let short_exp = reference(&short_in);
    let exp_tail = match short_exp.strip_prefix("abcdefgha") {
        Some(t) => t.to_string(),
        None => {
            st.caps_hit.push("MACHINERY: giga case: the reference does not keep the filler prefix".into());
            return;
        }
    };
    let mut s = String::with_capacity(N + 64);
    s.push_str(head);
    let chunk = "a".repeat(1 << 20);
    for _ in 0..(N >> 20) {
        s.push_str(&chunk);
    }
    s.push_str(tail);
    st.states += 1;
    st.transitions += 1;
    st.evaluations += 1;
    let mk = || Case::new("giga").s(tail).x(json!([p.name(), r.name()]));
    // linear work on 4 GiB: minutes, not seconds, on a loaded machine
    let got = crate::watch::with_allowance(1800, || rule(p, r, &s));
    drop(s);
    match got {
        Out::Ok(o) => {
            let b = o.as_bytes();
            let ok = b.len() == head.len() + N + exp_tail.len() && &b[..head.len()] == head.as_bytes() && b[head.len()..head.len() + N].iter().all(|x| *x == b'a') && &b[head.len() + N..] == exp_tail.as_bytes();
            if !ok {
                let first_bad = b.iter().skip(head.len()).take(N).position(|x| *x != b'a');
                let end: String = String::from_utf8_lossy(&b[b.len().saturating_sub(24)..]).to_string();
                st.violation(
                    "rule",
                    mk,
                    format!("\"abcdefgh\" + 2^32 x 'a' + {}", crate::subject::show(&exp_tail)),
                    format!("{} bytes, first non-filler byte inside the run at {:?}, ends with {}", b.len(), first_bad, crate::subject::show(&end)),
                );
            }
        }
        other => st.violation("rule", mk, format!("Ok(... {})", crate::subject::show(&exp_tail)), show_out(&other).chars().take(300).collect()),
    }
    st.count("out:giga-label");
}

/// *Diverse* strings: for every block of 64 code points, the string of all its characters that
/// the class accepts (in code-point order - up to 64 DIFFERENT characters of one script), and
/// its prefixes around 16 and 32 characters. Repetitive families never hold more than two
/// distinct characters; a per-label memo, set or small table only fills up on these.
pub fn block_staircases(env: &crate::env::Env, class: crate::subject::Class) -> Vec<String> {
    use rayon::prelude::*;
    let blocks: Vec<u32> = (0..0x110000u32 / 64).collect();
    let mut out: Vec<String> = blocks
        .par_iter()
        .flat_map(|b| {
            let chars: Vec<char> = (b * 64..b * 64 + 64)
                .filter(|cp| crate::refmodel::derived_property(&env.u63, *cp, class).is_valid())
                .filter_map(char::from_u32)
                .collect();
            let mut v = Vec::new();
            if chars.len() >= 2 {
                v.push(chars.iter().collect::<String>());
                for n in [15usize, 16, 17, 18, 31, 32, 33] {
                    if n < chars.len() {
                        v.push(chars[..n].iter().collect::<String>());
                        v.push(chars[chars.len() - n..].iter().collect::<String>());
                    }
                }
            }
            v
        })
        .collect();
    out.sort();
    out.dedup();
    out
}
