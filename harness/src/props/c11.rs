//! C11 - width mapping replaces exactly the wide/narrow compatibility characters.

use crate::engine::*;
use crate::env::Env;
use crate::props::rules::*;
use crate::refmodel::ref_width;
use crate::subject::{from_cps, Prof, RuleFn};
use serde_json::json;

pub fn sigma11() -> Vec<char> {
    chars_of(&[
        0x61, 0x65E5, 0x10400, // unmapped, 1/3/4 bytes
        0xFF21, 0xFF71, 0xFF76, 0xFFE0, 0x3000, 0xFF9E, // (FF76: narrow KA, has a voiced form) wide A, narrow katakana A, wide cent, ideographic space (<wide> -> U+0020), narrow voiced mark
        0xFB01, 0x3231, 0x2460, 0xB2, // other compatibility characters that must stay
        0xE9,
    ])
}

fn visit(env: &Env, s: &str, st: &mut Stats) {
    let exp = ref_width(&env.ud16, s);
    for p in [Prof::Ucm, Prof::Ucp] {
        check_rule_fn(p, RuleFn::Width, s, &exp, true, st);
    }
    let first = s.chars().position(|c| env.ud16.width_map(c as u32).is_some());
    if matches!(first, Some(i) if i > 0) {
        st.nontrivial += 1;
    }
}

pub fn run(env: &Env, run: &Run) -> (Stats, Coverage) {
    let sigma = crate::sig::rotated(env, sigma11(), run.seed);
    let n = run.tier.pick(5, 7);
    let mut st = strtree(&sigma, n, |_c, s, st| visit(env, s, st));
    st.merge(cpsweep(|c, st| {
        let x = c as u32;
        for l in [vec![x], vec![0x61, x], vec![x, 0x61], vec![0xFF21, x], vec![x, 0xFF21], vec![0x65E5, x], vec![0x10400, x, 0xFF71], vec![x, 0xFF9E], vec![x, 0xFF9F], vec![x, 0x3099]] {
            visit(env, &from_cps(&l), st);
        }
        for a in alias_chars(c) {
            visit(env, &from_cps(&[x, a as u32]), st);
            visit(env, &from_cps(&[a as u32, x]), st);
            // far apart / behind a long prefix, for the characters that have a width mapping
            if (0xFF00..=0xFFEF).contains(&x) {
                for s in long_pair_strings(c, a) {
                    visit(env, &s, st);
                }
            }
        }
        // an unmapped character of the same UTF-8 lead byte (EF) right before / a few bytes before
        // a mapped one, at every offset modulo 8 behind a long prefix (a search for the lead byte
        // that resumes after a rejected candidate)
        if (0xF000..=0xFFFF).contains(&x) && (x % 64 == 0 || (0xFB00..=0xFB06).contains(&x) || (0xFF00..=0xFFFF).contains(&x)) {
            for pre in 32..40usize {
                for gap in 0..3usize {
                    for m in [0xFF21u32, 0xFF71] {
                        let mut l: Vec<u32> = vec![0x61; pre];
                        l.push(x);
                        l.extend(std::iter::repeat(0x61).take(gap));
                        l.push(m);
                        l.extend([0x61, 0x61]);
                        visit(env, &from_cps(&l), st);
                    }
                }
            }
        }
    }));

    // structural families: pumped runs a^k b / b a^k / a^k b a (k around 8, 16, 32, 64 and, for a
    // few symbols, 128..1025) every ASCII character at every offset of 7..33-byte
    // ASCII strings (two fillers), alphabet symbols alone and in pairs inside 16..41-byte ASCII strings,
    // all of them at every address residue modulo 8 / 16 (sub-slices of a larger buffer)
    st.merge(run_structural(&sigma, run.tier, |s, st| visit(env, s, st)));
    {
        let stairs = block_staircases(env, crate::subject::Class::Identifier);
        st.merge(run_family(&stairs, |s, st| visit(env, s, st)));
    }
    if run.tier == Tier::Thorough && !lite() {
        // a label of more than 4 GiB with the mapped characters behind offset 2^32
        check_rule_giga(Prof::Ucp, RuleFn::Width, "\u{ff21}\u{65e5}\u{ff76}\u{3000}z", |x| ref_width(&env.ud16, x), &mut st);
    }
    st.merge(cpsweep_sequential(|c, st| {
        visit(env, &from_cps(&[c as u32]), st);
        visit(env, &from_cps(&[0x65E5, c as u32]), st);
    }));
    // every ordered pair of the mapping table's own members (lookup state carried from one
    // mapped character to the next: cursors, "near" probes, last-hit hints)
    {
        let members: Vec<u32> = (0..0x110000u32).filter(|c| env.ud16.width_map(*c).is_some()).collect();
        let strs: Vec<String> = members.iter().flat_map(|a| members.iter().map(move |b| from_cps(&[*a, *b]))).collect();
        st.merge(run_family(&strs, |s, st| visit(env, s, st)));
        st.add("family:member_pairs", strs.len() as u64);
    }
    let mapped = (0..0x110000u32).filter(|c| env.ud16.width_map(*c).is_some()).count();
    st.sample(json!({"input": ["U+65E5", "U+FF21", "U+FB01"], "expected": "U+65E5 A U+FB01 (only the fullwidth letter is replaced)"}));
    st.sample(json!({"input": ["U+3000"], "expected": "U+0020 (<wide> 0020)"}));
    let cov = Coverage {
        rule: format!("every string of length <= {} over 14 symbols + pumped runs and ASCII block strings + every scalar value in 10 templates (incl. before the halfwidth and the combining voiced sound marks, whose images compose with kana) and next to each of its 16 other-plane aliases + every ordered pair of the 226 mapped characters through width_mapping_rule of both username profiles; oracle = per-character replacement by the first code point of the <wide>/<narrow> decomposition in the profile crate's UnicodeData, read by an independent reader; idempotence on the output; non-trivial = first mapped character is not at index 0 (copy-on-first-change path with a non-empty prefix)", n),
        alphabet: json!(sigma.iter().map(|c| format!("U+{:04X}", *c as u32)).collect::<Vec<_>>()),
        bound_completed: format!("length <= {} ({} strings) x 2 profiles; sweep 1,112,064 x 10 templates x 2", n, tree_size(sigma.len(), n)),
        exhaustive: false,
        assumptions: vec!["pinned UnicodeData 16.0.0 is authentic".into()],
        extra: json!({"code_points_with_wide_or_narrow_mapping": mapped}),
    };
    (st, cov)
}

pub fn replay(env: &Env, case: &Case) -> Vec<Violation> {
    let mut st = Stats::default();
    if case.op == "giga" {
        check_rule_giga(Prof::Ucp, RuleFn::Width, &case.str_at(0), |x| ref_width(&env.ud16, x), &mut st);
    }
    if case.op == "rulefn" {
        let s = case.str_at(0);
        let exp = ref_width(&env.ud16, &s);
        if let Some(p) = case.extra.get(0).and_then(|v| v.as_str()).and_then(Prof::from_name) {
            check_rule_fn(p, RuleFn::Width, &s, &exp, true, &mut st);
        }
    }
    st.violations
}
