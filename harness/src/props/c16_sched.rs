//! Bridge to the schedule explorer (separate binary `pmc-sched`, built in its own
//! workspace with lazy_static patched by the scheduler shim).

use crate::engine::*;
use serde_json::{json, Value};
use std::process::Command;

fn bin() -> Option<std::path::PathBuf> {
    std::env::var_os("PMC_SCHED_BIN").map(std::path::PathBuf::from).filter(|p| p.exists())
}

pub fn run_sched(tier: Tier, st: &mut Stats) -> Value {
    let b = match bin() {
        Some(b) => b,
        None => {
            st.caps_hit.push("MACHINERY: schedule explorer binary not found (run through ./check C16)".into());
            return json!({"status": "not built"});
        }
    };
    let out = match Command::new(&b).arg(tier.name()).output() {
        Ok(o) => o,
        Err(e) => {
            st.caps_hit.push(format!("MACHINERY: cannot run schedule explorer: {}", e));
            return json!({"status": "failed to start"});
        }
    };
    let text = String::from_utf8_lossy(&out.stdout);
    let v: Value = match serde_json::from_str(text.trim()) {
        Ok(v) => v,
        Err(e) => {
            st.caps_hit.push(format!("MACHINERY: schedule explorer produced no report ({}; exit {:?})", e, out.status.code()));
            return json!({"status": "no report"});
        }
    };
    let schedules = v["schedules"].as_u64().unwrap_or(0);
    st.states += schedules;
    st.transitions += v["choice_points"].as_u64().unwrap_or(0);
    st.evaluations += schedules;
    st.traces += schedules;
    st.add("schedules_explored", schedules);
    for e in v["errors"].as_array().cloned().unwrap_or_default() {
        st.caps_hit.push(format!("MACHINERY: schedule explorer: {}", e.as_str().unwrap_or("?")));
    }
    for sc in v["scenarios"].as_array().cloned().unwrap_or_default() {
        if sc["capped"].as_bool() == Some(true) {
            st.caps_hit.push(format!("schedule scenario {} hit the execution cap after {} schedules", sc["scenario"], sc["schedules"]));
        }
        if sc["distinct_outcomes"].as_u64().unwrap_or(0) >= 2 {
            st.nontrivial += 1;
        }
    }
    for viol in v["violations"].as_array().cloned().unwrap_or_default() {
        let problems = viol["problems"].as_array().map(|a| a.iter().filter_map(|x| x.as_str()).collect::<Vec<_>>().join("; ")).unwrap_or_default();
        let vv = viol.clone();
        st.violation(
            "schedule",
            move || Case::new("schedule").x(json!({"scenario": vv["scenario"], "choices": vv["choices"], "schedule": vv["schedule"]})),
            "every thread gets the single-threaded results, each initialiser runs once, no deadlock".into(),
            problems,
        );
    }
    if let Some(s) = v["scenarios"].as_array().and_then(|a| a.first()) {
        st.sample(json!({"schedule_scenario": s}));
    }
    v
}

pub fn replay_sched(case: &Case) -> Vec<Violation> {
    let mut st = Stats::default();
    let b = match bin() {
        Some(b) => b,
        None => return vec![],
    };
    let name = case.extra["scenario"].as_str().unwrap_or("").to_string();
    let ch: Vec<String> = case.extra["choices"].as_array().map(|a| a.iter().filter_map(|x| x.as_u64()).map(|x| x.to_string()).collect()).unwrap_or_default();
    if let Ok(out) = Command::new(&b).arg("replay").arg(&name).arg(ch.join(",")).output() {
        if let Ok(v) = serde_json::from_str::<Value>(String::from_utf8_lossy(&out.stdout).trim()) {
            for viol in v["violations"].as_array().cloned().unwrap_or_default() {
                let problems = viol["problems"].as_array().map(|a| a.iter().filter_map(|x| x.as_str()).collect::<Vec<_>>().join("; ")).unwrap_or_default();
                st.violation("schedule", || case.clone(), "every thread gets the single-threaded results, each initialiser runs once, no deadlock".into(), problems);
            }
        }
    }
    st.violations
}
