//! Bridge to the schedule explorer (separate binary built in its own workspace
//! with lazy_static patched by the scheduler shim).

use crate::engine::*;
use serde_json::{json, Value};

pub fn run_sched(_tier: Tier, st: &mut Stats) -> Value {
    st.note("schedule explorer not built yet".into());
    json!({"status": "not built"})
}

pub fn replay_sched(_case: &Case) -> Vec<Violation> {
    vec![]
}
