//! C14 - derived property of every code point follows the RFC 8264 algorithm.

use crate::engine::*;
use crate::env::Env;
use crate::refmodel::{derived_property, has_compat};
use crate::subject::{dp_char, dp_cp, Class, DP};
use serde_json::json;

fn show_dp(r: &Result<DP, String>) -> String {
    match r {
        Ok(d) => format!("{:?}", d),
        Err(p) => format!("PANIC({})", p),
    }
}

/// All assertions about one 32-bit value.
pub fn check_value(env: &Env, v: u32, st: &mut Stats) {
    let id = dp_cp(Class::Identifier, v);
    let ff = dp_cp(Class::Freeform, v);
    st.evaluations += 2;
    let case = || Case::new("classify").n(v as u64);
    let rid = derived_property(&env.u63, v, Class::Identifier);
    let rff = derived_property(&env.u63, v, Class::Freeform);
    let scalar = char::from_u32(v);
    if v > 0x10FFFF || scalar.is_none() {
        // surrogates and values above U+10FFFF are never valid
        for (name, got) in [("identifier", &id), ("freeform", &ff)] {
            st.traces += 1;
            match got {
                Ok(DP::Disallowed) | Ok(DP::Unassigned) => {}
                _ => st.violation(
                    "nonscalar_valid",
                    case,
                    format!("{}: Disallowed or Unassigned", name),
                    show_dp(got),
                ),
            }
        }
        st.count(match &id {
            Ok(d) => match d {
                DP::Disallowed => "out:nonscalar-disallowed",
                DP::Unassigned => "out:nonscalar-unassigned",
                _ => "out:nonscalar-other",
            },
            Err(_) => "out:panic",
        });
        if v <= 0x10FFFF {
            // surrogate: the registry and the reference list it too
            if let Some(reg) = env.registry.get(v, Class::Identifier) {
                if id.as_ref().ok() != Some(&reg) {
                    st.violation("registry", case, format!("registry {:?}", reg), show_dp(&id));
                }
            }
        }
        return;
    }
    let ch = scalar.unwrap();
    // three-way: implementation = reference recomputation = registry row
    for (class, got, rf) in [(Class::Identifier, &id, rid), (Class::Freeform, &ff, rff)] {
        st.traces += 1;
        if got.as_ref().ok() != Some(&rf) {
            st.violation(
                "reference",
                case,
                format!("{:?}: {:?} (RFC 8264 s.8 over pinned 6.3.0 UCD)", class, rf),
                show_dp(got),
            );
        }
        match env.registry.get(v, class) {
            Some(reg) => {
                st.traces += 1;
                if got.as_ref().ok() != Some(&reg) {
                    st.violation(
                        "registry",
                        case,
                        format!("{:?}: {:?} (IANA precis-tables-6.3.0)", class, reg),
                        show_dp(got),
                    );
                }
                if reg != rf {
                    st.note(format!(
                        "reference and registry disagree at {:04X} ({:?}: {:?} vs {:?})",
                        v, class, rf, reg
                    ));
                    st.count("reference_vs_registry_disagree");
                }
            }
            None => {
                st.note(format!("registry does not list {:04X}", v));
                st.count("registry_missing");
            }
        }
    }
    // entry points agree
    let idc = dp_char(Class::Identifier, ch);
    let ffc = dp_char(Class::Freeform, ch);
    st.evaluations += 2;
    st.traces += 2;
    if idc != id {
        st.violation("entry_points", case, format!("char entry = codepoint entry = {}", show_dp(&id)), show_dp(&idc));
    }
    if ffc != ff {
        st.violation("entry_points", case, format!("char entry = codepoint entry = {}", show_dp(&ff)), show_dp(&ffc));
    }
    // class relation
    st.traces += 1;
    if let (Ok(a), Ok(b)) = (&id, &ff) {
        let ok = match (a, b) {
            (DP::SpecDis, DP::SpecPval) => true,
            (DP::SpecDis, _) | (_, DP::SpecPval) => false,
            (x, y) => x == y && *x != DP::SpecPval && *y != DP::SpecDis,
        };
        if !ok {
            st.violation(
                "class_relation",
                case,
                "identifier=SpecClassDis exactly where freeform=SpecClassPval, equal elsewhere".into(),
                format!("identifier={:?} freeform={:?}", a, b),
            );
        }
        st.count(&format!("out:{:?}/{:?}", a, b));
        if !matches!(a, DP::Unassigned) {
            st.nontrivial += 1;
        }
    } else {
        st.count("out:panic");
    }
    // second opinion on HasCompat for code points assigned in 6.3.0
    if env.u63.ud.assigned(v) && has_compat(v) != env.py_hascompat[v as usize] {
        st.note(format!(
            "HasCompat({:04X}): unicode-normalization says {}, CPython says {}",
            v,
            has_compat(v),
            env.py_hascompat[v as usize]
        ));
        st.count("hascompat_second_opinion_disagree");
    }
}

pub fn run(env: &Env, run: &Run) -> (Stats, Coverage) {
    let mut st = Stats::default();
    let exhaustive;
    let bound;
    match run.tier {
        Tier::Quick => {
            st.merge(u32sweep(&[(0, 0x1FFFFF)], |v, st| check_value(env, v, st)));
            let lat: Vec<u32> = u32_lattice().into_iter().filter(|v| *v > 0x1FFFFF).collect();
            let mut s2 = Stats::default();
            for v in &lat {
                s2.states += 1;
                s2.transitions += 1;
                check_value(env, *v, &mut s2);
            }
            st.merge(s2);
            exhaustive = false;
            bound = format!(
                "every value 0..=0x1FFFFF (covers all code points and surrogates) + {} lattice values above (<=2 bits set +-1, stride 4099*257, boundaries)",
                lat.len()
            );
        }
        Tier::Thorough => {
            st.merge(u32sweep(&[(0, u32::MAX)], |v, st| check_value(env, v, st)));
            exhaustive = true;
            bound = "all 2^32 values".into();
        }
    }
    // aliasing histories, single-threaded on purpose: classify x, then every value that differs
    // from x in exactly one bit above the Unicode range, then x again. The answers for the
    // out-of-range aliases must be "never valid" and the answer for x must not have moved.
    {
        let mut h = Stats::default();
        let mut seqs = 0u64;
        for x in (0u32..=0x10FFFF).filter(|x| run.tier == Tier::Thorough || x % 3 == run.seed as u32 % 3 || *x < 0x3000 || (0xF900..=0x10000).contains(x)) {
            if char::from_u32(x).is_none() {
                continue;
            }
            for class in [Class::Identifier, Class::Freeform] {
                let before = dp_cp(class, x);
                for bit in 16..32u32 {
                    let alias = x ^ (1 << bit);
                    let r = dp_cp(class, alias);
                    h.evaluations += 1;
                    let ok = if alias > 0x10FFFF || char::from_u32(alias).is_none() {
                        matches!(r, Ok(DP::Disallowed) | Ok(DP::Unassigned))
                    } else {
                        r.as_ref().ok() == Some(&derived_property(&env.u63, alias, class))
                    };
                    if !ok {
                        h.violation(
                            "history_alias",
                            || Case::new("alias").n(x as u64).n(alias as u64),
                            format!("{:#x} (queried right after {:#x}) classified as {:?}", alias, x, derived_property(&env.u63, alias, class)),
                            show_dp(&r),
                        );
                    }
                    if alias <= 0x10FFFF {
                        // x, alias, x, x, alias: both must still be answered as before (see below)
                        for _again in 0..2 {
                            let back = dp_cp(class, x);
                            h.evaluations += 1;
                            if back != before {
                                h.violation("history_alias", || Case::new("alias").n(alias as u64).n(x as u64), format!("{:#x} (queried right after {:#x}) classified as before ({})", x, alias, show_dp(&before)), show_dp(&back));
                            }
                        }
                        let r2 = dp_cp(class, alias);
                        h.evaluations += 1;
                        if r2 != r {
                            h.violation("history_alias", || Case::new("alias").n(x as u64).n(alias as u64), format!("{:#x} (queried again after {:#x}) classified as before ({})", alias, x, show_dp(&r)), show_dp(&r2));
                        }
                    }
                }
                // every 32-bit value with the same low 24 bits (255 of them), and the nearest 48
                // values with the same low 21, 20 and 16 bits: what a key truncated to w bits and
                // slotted by any hash confuses x with
                if x < 0x3100 || x % 251 == (run.seed % 251) as u32 || run.tier == Tier::Thorough {
                    let mut aliases: Vec<u32> = (1..=255u32).map(|k| x.wrapping_add(k << 24)).collect();
                    for w in [21u32, 20, 16] {
                        aliases.extend((1..=48u32).map(|k| x.wrapping_add(k << w)));
                    }
                    // every value that differs from x in one or two of the bits 0..=20: a key whose
                    // index and tag are both derived from the code point (xor-folded, shifted)
                    // confuses x with such a neighbour
                    for b1 in 0..=20u32 {
                        aliases.push(x ^ (1 << b1));
                        for b2 in (b1 + 1)..=20u32 {
                            aliases.push(x ^ (1 << b1) ^ (1 << b2));
                        }
                    }
                    for alias in aliases {
                        let r = dp_cp(class, alias);
                        h.evaluations += 1;
                        let ok = if alias > 0x10FFFF || char::from_u32(alias).is_none() {
                            matches!(r, Ok(DP::Disallowed) | Ok(DP::Unassigned))
                        } else {
                            r.as_ref().ok() == Some(&derived_property(&env.u63, alias, class))
                        };
                        if !ok {
                            h.violation(
                                "history_alias",
                                || Case::new("alias").n(x as u64).n(alias as u64),
                                format!("{:#x} (queried right after {:#x}) classified as {:?}", alias, x, derived_property(&env.u63, alias, class)),
                                show_dp(&r),
                            );
                        }
                        // and x itself must not have been disturbed by the alias - asked twice: a
                        // lookup that answers correctly but reorders or rewrites its cache entry on a
                        // hit (move-to-front, promotion between ways) shows on the NEXT lookup
                        for _again in 0..2 {
                            let back = dp_cp(class, x);
                            h.evaluations += 1;
                            if back != before {
                                h.violation("history_alias", || Case::new("alias").n(alias as u64).n(x as u64), format!("{:#x} (queried right after {:#x}) classified as before ({})", x, alias, show_dp(&before)), show_dp(&back));
                            }
                        }
                    }
                }
                let after = dp_cp(class, x);
                h.evaluations += 2;
                h.traces += 1;
                seqs += 1;
                if after != before {
                    h.violation("history_alias", || Case::new("alias").n(x as u64).n(x as u64), format!("{:#x} classified as before ({})", x, show_dp(&before)), show_dp(&after));
                }
            }
            h.states += 1;
            h.transitions += 34;
        }
        h.add("alias_histories", seqs);
        st.merge(h);
    }
    for v in [0x0041u32, 0x00DF, 0x200C, 0x1100, 0x2163, 0xD800, 0x110000, u32::MAX] {
        st.sample(json!({"value": format!("{:#x}", v),
            "identifier": show_dp(&dp_cp(Class::Identifier, v)),
            "freeform": show_dp(&dp_cp(Class::Freeform, v)),
            "reference_identifier": format!("{:?}", derived_property(&env.u63, v, Class::Identifier))}));
    }
    let cov = Coverage {
        rule: "state = one 32-bit value; both classes and both entry points are evaluated on it and compared with (a) the RFC 8264 s.8 decision list recomputed from the pinned raw 6.3.0 UCD files by an independent reader, (b) the IANA registry row read by the harness's own splitter; plus single-threaded aliasing histories x -> x xor 2^b (b=16..31) -> x, and x -> x + k*2^24 (all k) / x + k*2^w (w=21,20,16; k<=48) -> x, and x -> x xor m -> x for every mask m of one or two bits among bits 0..20, x being asked twice after every in-range alias (x, y, x, x, y), for scalar values x (quick: a third of them rotating with the seed + all below U+3000 and U+F900..U+10000; thorough: all); non-trivial = scalar values whose identifier value is not UNASSIGNED".into(),
        alphabet: json!("u32"),
        bound_completed: bound,
        exhaustive,
        assumptions: vec![
            "HasCompat reference uses the unicode-normalization crate (same dependency as the subject); cross-checked against CPython's unicodedata on all code points assigned in 6.3.0".into(),
            "pinned copies of the 6.3.0 UCD files and IANA csv under /verif/data are authentic".into(),
        ],
        extra: json!({}),
    };
    (st, cov)
}

pub fn replay(env: &Env, case: &Case) -> Vec<Violation> {
    let mut st = Stats::default();
    if case.op == "alias" && case.nums.len() == 2 && case.nums[0] != case.nums[1] {
        // "second value queried right after the first"
        let (first, second) = (case.nums[0] as u32, case.nums[1] as u32);
        for class in [Class::Identifier, Class::Freeform] {
            let _ = dp_cp(class, first);
            let r = dp_cp(class, second);
            let ok = if second > 0x10FFFF || char::from_u32(second).is_none() {
                matches!(r, Ok(DP::Disallowed) | Ok(DP::Unassigned))
            } else {
                r.as_ref().ok() == Some(&derived_property(&env.u63, second, class))
            };
            if !ok {
                st.violation("history_alias", || case.clone(), format!("{:#x} (queried right after {:#x}) classified as {:?}", second, first, derived_property(&env.u63, second, class)), show_dp(&r));
            }
        }
        return st.violations;
    }
    if case.op == "alias" && case.nums.len() == 2 {
        let (x, alias) = (case.nums[0] as u32, case.nums[1] as u32);
        for class in [Class::Identifier, Class::Freeform] {
            let before = dp_cp(class, x);
            let r = dp_cp(class, alias);
            let ok = if alias > 0x10FFFF || char::from_u32(alias).is_none() {
                matches!(r, Ok(DP::Disallowed) | Ok(DP::Unassigned))
            } else {
                r.as_ref().ok() == Some(&derived_property(&env.u63, alias, class))
            };
            if alias != x && !ok {
                st.violation("history_alias", || case.clone(), format!("{:#x} (queried right after {:#x}) classified as {:?}", alias, x, derived_property(&env.u63, alias, class)), show_dp(&r));
            }
            let after = dp_cp(class, x);
            if alias == x && after != before {
                st.violation("history_alias", || case.clone(), format!("{:#x} classified as before ({})", x, show_dp(&before)), show_dp(&after));
            }
        }
        return st.violations;
    }
    if let Some(v) = case.nums.first() {
        check_value(env, *v as u32, &mut st);
    }
    st.violations
}
