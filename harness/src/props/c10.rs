//! C10 - case mapping lowercases every character, wherever it stands.

use crate::engine::*;
use crate::env::Env;
use crate::props::rules::*;
use crate::refmodel::ref_lower;
use crate::subject::{from_cps, Prof, RuleFn};
use serde_json::json;

pub fn sigma10() -> Vec<char> {
    chars_of(&[
        0x61, 0x41, 0xE9, 0xC9, // a A e-acute E-acute
        0x1C5, 0x1F88, // titlecase digraph, titlecase Greek with prosgegrammeni
        0x130, 0x3A3, 0x3C2, // I-dot (two-character lowercase, one byte longer), Sigma, final sigma
        0x23A, 0x1E9E, 0x212A, // lowercase one byte longer / one byte shorter / two bytes shorter in UTF-8
        0x24B6, 0x2160, // Other_Uppercase: circled A, roman numeral one
        0x10400, 0x13A0, 0xDF, // Deseret capital (4 bytes), Cherokee, sharp s
        0x31, 0x65E5, // uncased
    ])
}

fn visit(s: &str, st: &mut Stats) {
    let exp = ref_lower(s);
    for p in [Prof::Ucm, Prof::Nick] {
        check_rule_fn(p, RuleFn::Case, s, &exp, true, st);
    }
    // position independence: the image of the string is the concatenation of the images
    let n_mapped = s.chars().filter(|c| !c.to_lowercase().eq(std::iter::once(*c))).count();
    let first_mapped = s.chars().position(|c| !c.to_lowercase().eq(std::iter::once(c)));
    if n_mapped >= 1 && first_mapped != Some(0) || n_mapped >= 2 {
        st.nontrivial += 1;
    }
}

pub fn run(_env: &Env, run: &Run) -> (Stats, Coverage) {
    let sigma = crate::sig::rotated(_env, sigma10(), run.seed);
    let n = run.tier.pick(5, 6);
    let mut st = strtree(&sigma, n, |_c, s, st| visit(s, st));
    st.merge(cpsweep(|c, st| {
        let x = c as u32;
        for l in [vec![x], vec![0x61, x], vec![x, 0x61], vec![0x41, x], vec![x, 0x41], vec![0xE9, x], vec![x, x], vec![0x65E5, x, 0x61], vec![0x1C5, x], vec![x, 0x1C5], vec![0x130, x], vec![x, 0x130], vec![0x1E9E, x], vec![x, 0x1E9E], vec![x, 0x3A3], vec![0x3A3, x], vec![0x41, 0x3A3, x], vec![x, 0x307], vec![0x49, x, 0x307]] {
            visit(&from_cps(&l), st);
        }
        let mapped = |c: char| !c.to_lowercase().eq(std::iter::once(c));
        for a in alias_chars(c) {
            visit(&from_cps(&[x, a as u32]), st);
            visit(&from_cps(&[a as u32, x]), st);
            // far apart / behind a long prefix, wherever the two differ in having a mapping
            if mapped(c) && !mapped(a) || (mapped(c) && mapped(a) && x < a as u32) {
                for s in long_pair_strings(c, a) {
                    visit(&s, st);
                }
            }
        }
    }));

    // structural families: pumped runs a^k b / b a^k / a^k b a (k around 8, 16, 32, 64 and, for a
    // few symbols, 128..1025) every ASCII character at every offset of 7..33-byte
    // ASCII strings (two fillers), alphabet symbols alone and in pairs inside 16..41-byte ASCII strings,
    // all of them at every address residue modulo 8 / 16 (sub-slices of a larger buffer)
    st.merge(run_structural(&sigma, run.tier, |s, st| visit(s, st)));
    for class in [crate::subject::Class::Identifier, crate::subject::Class::Freeform] {
        let stairs = block_staircases(_env, class);
        st.merge(run_family(&stairs, |s, st| visit(s, st)));
    }
    if run.tier == Tier::Thorough && !lite() {
        // a label of more than 4 GiB with the cased characters behind offset 2^32
        check_rule_giga(Prof::Ucm, RuleFn::Case, "A\u{130}\u{3a3}z\u{1c5}", ref_lower, &mut st);
    }
    st.merge(cpsweep_sequential(|c, st| {
        visit(&from_cps(&[c as u32]), st);
        visit(&from_cps(&[0x41, c as u32]), st);
    }));
    // every ordered pair of characters that have a lowercase mapping (about 1 400^2 labels)
    {
        let members: Vec<char> = (0..0x110000u32).filter_map(char::from_u32).filter(|c| !c.to_lowercase().eq(std::iter::once(*c))).collect();
        let shards: Vec<Stats> = {
            use rayon::prelude::*;
            members
                .par_iter()
                .map(|a| {
                    let mut st = Stats::default();
                    let mut s = String::new();
                    for b in &members {
                        s.clear();
                        s.push(*a);
                        s.push(*b);
                        st.states += 1;
                        st.transitions += 1;
                        let exp = ref_lower(&s);
                        check_rule_fn(Prof::Ucm, RuleFn::Case, &s, &exp, false, &mut st);
                    }
                    st
                })
                .collect()
        };
        for x in shards {
            st.merge(x);
        }
    }
    let with_mapping = (0..0x110000u32).filter_map(char::from_u32).filter(|c| !c.to_lowercase().eq(std::iter::once(*c))).count();
    let not_upper = (0..0x110000u32).filter_map(char::from_u32).filter(|c| !c.to_lowercase().eq(std::iter::once(*c)) && !c.is_uppercase()).count();
    st.sample(json!({"input": ["U+01C5"], "expected": "U+01C6 (titlecase letter, no uppercase letter before it)"}));
    st.sample(json!({"input": ["a", "U+0130", "U+03A3"], "expected": "a i U+0307 U+03C3 (full, unconditional mapping)"}));
    let cov = Coverage {
        rule: format!("every string of length <= {} over 19 symbols (upper, lower, titlecase, Other_Uppercase, multi-character mapping, mappings that grow and that shrink in UTF-8, 1-4 byte, uncased) + pumped runs and ASCII block strings + every scalar value in 19 templates (incl. next to a growing and next to a shrinking mapping, both orders, and in the contexts the conditional SpecialCasing rules look at: around capital sigma, before a combining dot above) and next to each of its 16 other-plane aliases, + every ordered pair of the characters that have a lowercase mapping, through case_mapping_rule of UsernameCaseMapped and Nickname; oracle = concatenation of char::to_lowercase of each character (hence position independent), idempotence on the output; non-trivial = a mapped character that is not at index 0, or two mapped characters", n),
        alphabet: json!(sigma.iter().map(|c| format!("U+{:04X}", *c as u32)).collect::<Vec<_>>()),
        bound_completed: format!("length <= {} ({} strings) x 2 profiles; sweep 1,112,064 x 19 templates x 2", n, tree_size(sigma.len(), n)),
        exhaustive: false,
        assumptions: vec!["char::to_lowercase (std) is the full untailored lowercase mapping the README documents".into()],
        extra: json!({"code_points_with_lowercase_mapping": with_mapping, "of_which_not_is_uppercase": not_upper}),
    };
    (st, cov)
}

pub fn replay(_env: &Env, case: &Case) -> Vec<Violation> {
    let mut st = Stats::default();
    if case.op == "giga" {
        check_rule_giga(Prof::Ucm, RuleFn::Case, &case.str_at(0), ref_lower, &mut st);
    }
    if case.op == "rulefn" {
        let s = case.str_at(0);
        let exp = ref_lower(&s);
        if let Some(p) = case.extra.get(0).and_then(|v| v.as_str()).and_then(Prof::from_name) {
            check_rule_fn(p, RuleFn::Case, &s, &exp, true, &mut st);
        }
    }
    st.violations
}
