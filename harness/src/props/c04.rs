//! C04 - username profiles apply RFC 8265 rules, all of them, in the specified order.
//! Also hosts the shared "profile tree" driver used by C05 and C06.

use crate::engine::*;
use crate::env::Env;
use crate::pipeline::*;
use crate::subject::{from_cps, op, Op, Out, Prof};
use serde_json::json;

pub fn check_op(env: &Env, p: Prof, o: Op, s: &str, st: &mut Stats) -> Expect {
    let got = op(p, o, s);
    let exp = match o {
        Op::Prepare => ref_prepare(env, p, s),
        Op::Enforce => ref_enforce(env, p, s),
    };
    st.evaluations += 1;
    st.traces += 1;
    if !exp.accepts(&got) {
        let kind = if matches!(got, Out::Panic(_)) {
            "panic"
        } else if matches!(o, Op::Prepare) {
            "prepare"
        } else {
            "enforce"
        };
        st.violation(
            kind,
            || Case::new(if matches!(o, Op::Prepare) { "prepare" } else { "enforce" }).s(s).x(json!(p.name())),
            exp.show(),
            show_out(&got),
        );
    }
    exp
}

/// prepare failure must also be the enforce result; case-preserved never changes case
pub fn check_relations(env: &Env, p: Prof, s: &str, st: &mut Stats) {
    let pr = op(p, Op::Prepare, s);
    let en = op(p, Op::Enforce, s);
    st.evaluations += 2;
    st.traces += 1;
    if let Out::Err(_) = &pr {
        let exp = ref_prepare(env, p, s);
        // with the Undefined leniency both answers may legitimately be either member of the set
        if pr != en && !(exp.accepts(&pr) && exp.accepts(&en)) {
            st.violation(
                "prepare_error_not_enforce_result",
                || Case::new("relations").s(s).x(json!(p.name())),
                format!("enforce = prepare's failure {}", show_out(&pr)),
                show_out(&en),
            );
        }
    }
}

pub fn count_outcome(exp: &Expect, s: &str, st: &mut Stats) {
    match &exp.primary {
        Out::Ok(o) if o == s => st.count("out:ok-unchanged"),
        Out::Ok(_) => st.count("out:ok-changed"),
        Out::Err(e) => st.count(&format!("out:err-{}-step{}", match e {
            crate::subject::E::Invalid => "invalid",
            crate::subject::E::Bad(..) => "badcp",
            _ => "other",
        }, exp.step)),
        Out::Panic(_) => st.count("out:panic"),
    }
}

pub fn sigma04() -> Vec<char> {
    [
        0x61u32, 0x41, 0x6C, // a A l
        0xFF21, 0xFF76, 0xFF9E, 0xFFE0, 0xFF01, // wide A; halfwidth KA + voiced mark (NFC composes after mapping); wide cent (rejected after mapping); wide !
        0xC9, 0x65, 0x301, // E-acute, e, combining acute
        0x130, 0x3A3, 0x3C2, // I-dot (lowercases to 2 chars), Sigma, final sigma
        0x212A, // Kelvin sign (HasCompat -> rejected before case mapping)
        0xB7, 0x200C, 0x94D, // middle dot, ZWNJ, virama
        0x5D0, 0x628, 0x660, 0x31, 0x2D, 0x5B0, // R, AL, AN(+CONTEXTO), EN, ES, NSM
        0x13A0, // Cherokee A (lowercase unassigned in 6.3.0)
        0x20,   // space (ID_DIS)
        0x1C5,  // titlecase digraph (ID_DIS, has lowercase)
        0x334,  // combining overlay: ccc 1, NFC_QC=Yes, does not compose - sits between a base and a composing mark
    ]
    .iter()
    .map(|c| char::from_u32(*c).unwrap())
    .collect()
}

pub fn run(env: &Env, run: &Run) -> (Stats, Coverage) {
    let sigma = crate::sig::rotated(env, sigma04(), run.seed);
    let n = run.tier.pick(5, 6);
    let mut st = strtree(&sigma, n, |_chars, s, st| {
        for p in [Prof::Ucm, Prof::Ucp] {
            let e1 = check_op(env, p, Op::Prepare, s, st);
            let e2 = check_op(env, p, Op::Enforce, s, st);
            count_outcome(&e2, s, st);
            if e2.changed_steps >= 2 || e2.step >= 3 {
                st.nontrivial += 1;
            }
            if !matches!(e1.primary, Out::Ok(_)) {
                check_relations(env, p, s, st);
            }
        }
    });
    st.merge(cpsweep(|c, st| {
        let x = c as u32;
        for l in [vec![x], vec![0x61, x], vec![x, 0x41], vec![0xFF21, x], vec![0x5D0, x], vec![x, 0x301], vec![0xC9, x, 0xFF21], vec![0x61, x, 0x334], vec![0x130, x]] {
            let s = from_cps(&l);
            for p in [Prof::Ucm, Prof::Ucp] {
                check_op(env, p, Op::Prepare, &s, st);
                let e = check_op(env, p, Op::Enforce, &s, st);
                if e.changed_steps >= 2 {
                    st.nontrivial += 1;
                }
            }
        }
        for a in alias_chars(c) {
            for l in [vec![x, a as u32], vec![a as u32, x, 0x61]] {
                let s = from_cps(&l);
                for p in [Prof::Ucm, Prof::Ucp] {
                    check_op(env, p, Op::Enforce, &s, st);
                }
            }
        }
    }));

    // structural families: pumped runs a^k b / b a^k / a^k b a (k around 8, 16, 32, 64 and, for a
    // few symbols, 128..1025) every ASCII character at every offset of 7..33-byte
    // ASCII strings (two fillers), alphabet symbols alone and in pairs inside 16..41-byte ASCII strings,
    // all of them at every address residue modulo 8 / 16 (sub-slices of a larger buffer)
    st.merge(run_structural(&sigma, run.tier, |s, st| {
        for p in [Prof::Ucm, Prof::Ucp] {
            check_op(env, p, Op::Prepare, s, st);
            check_op(env, p, Op::Enforce, s, st);
        }
    }));
    // every canonical decomposition next to its own base character (both profiles, both operations)
    let dfam = crate::props::rules::decomposition_family(env);
    st.merge(run_family(&dfam, |s, st| {
        for p in [Prof::Ucm, Prof::Ucp] {
            check_op(env, p, Op::Prepare, s, st);
            check_op(env, p, Op::Enforce, s, st);
        }
    }));
    st.add("family:decomposition_strings", dfam.len() as u64);
    // diverse strings: up to 64 different accepted characters of one 64-block
    let stairs = crate::props::rules::block_staircases(env, crate::subject::Class::Identifier);
    st.merge(run_family(&stairs, |s, st| {
        for p in [Prof::Ucm, Prof::Ucp] {
            check_op(env, p, Op::Prepare, s, st);
            check_op(env, p, Op::Enforce, s, st);
        }
    }));
    st.add("family:block_staircase_strings", stairs.len() as u64);
    st.sample(json!({"profile": "UsernameCaseMapped", "input": ["U+FF21", "U+212A"], "expected": "Err(BadCodepoint{0x212a, 1, SpecClassDis}) - validation happens after width mapping and before case mapping"}));
    st.sample(json!({"profile": "UsernameCasePreserved", "input": ["U+FF76", "U+FF9E"], "expected": "Ok(U+30AC): width mapping then NFC composes"}));
    st.sample(json!({"profile": "UsernameCaseMapped", "input": ["U+05D0", "a"], "expected": "Err(Invalid) from the directionality rule"}));
    let cov = Coverage {
        rule: format!("every string of length <= {} over a 28-symbol alphabet chosen so that every pair of steps interacts (width x validation, width x NFC, case x NFC, case x validation order, contextual, RTL) x 2 profiles x {{prepare, enforce}} + pumped runs and ASCII block strings + every scalar value in 7 templates and next to each of its 16 other-plane aliases; oracle = width(UnicodeData decomposition tags) -> non-empty -> IdentifierClass(first offender) [-> lowercase] -> NFC -> non-empty -> directionality (implementation's own rule as a black box, C09 owns it); non-trivial = at least two steps change the string, or the failure comes from step >= 3", n),
        alphabet: json!(sigma.iter().map(|c| format!("U+{:04X}", *c as u32)).collect::<Vec<_>>()),
        bound_completed: format!("length <= {} ({} strings) x 2 profiles x 2 ops; sweep 1,112,064 x 9 templates x 2 x 2", n, tree_size(sigma.len(), n)),
        exhaustive: false,
        assumptions: vec!["char::to_lowercase and unicode-normalization are the trusted mapping data (the README documents them as the mapping used)".into(), "directionality step taken from the implementation (decided by C09)".into()],
        extra: json!({}),
    };
    (st, cov)
}

pub fn replay_ops(env: &Env, case: &Case) -> Vec<Violation> {
    let mut st = Stats::default();
    let p = case.extra.as_str().and_then(Prof::from_name);
    if let Some(p) = p {
        let s = case.str_at(0);
        match case.op.as_str() {
            "prepare" => {
                check_op(env, p, Op::Prepare, &s, &mut st);
            }
            "enforce" => {
                check_op(env, p, Op::Enforce, &s, &mut st);
            }
            "relations" => check_relations(env, p, &s, &mut st),
            _ => {}
        }
    }
    st.violations
}

pub fn replay(env: &Env, case: &Case) -> Vec<Violation> {
    replay_ops(env, case)
}
