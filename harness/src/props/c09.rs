//! C09 - the directionality rule is the RFC 5893 Bidi rule, on every label.

use crate::engine::*;
use crate::env::Env;
use crate::pipeline::show_out;
use crate::refmodel::{bidi_of, ref_bidi, BIDI_CLASSES};
use crate::subject::{from_cps, rule, Out, Prof, RuleFn, E};
use rayon::prelude::*;
use serde_json::json;

/// one representative code point per bidi class: the `seed`-th smallest member
pub fn representatives(env: &Env, seed: u64) -> Result<Vec<(String, char)>, String> {
    let mut out = Vec::new();
    for cls in BIDI_CLASSES {
        let members: Vec<u32> = (0..0x110000u32)
            .filter(|cp| env.ud16.bidi(*cp) == Some(cls) && char::from_u32(*cp).is_some())
            .take(64)
            .collect();
        if members.is_empty() {
            return Err(format!("no code point of bidi class {} in UnicodeData", cls));
        }
        let m = members[(seed as usize) % members.len()];
        out.push((cls.to_string(), char::from_u32(m).unwrap()));
    }
    Ok(out)
}

fn interior_nsm(q: &[&str]) -> bool {
    match q.iter().position(|c| *c == "NSM") {
        Some(i) => q[i + 1..].iter().any(|c| *c != "NSM"),
        None => false,
    }
}

/// compare directionality_rule(s) with the reference on the class sequence of s
pub fn check_label(env: &Env, p: Prof, s: &str, st: &mut Stats) -> Option<bool> {
    let q: Vec<&str> = s.chars().map(|c| bidi_of(&env.ud16, c as u32)).collect();
    let got = rule(p, RuleFn::Dir, s);
    st.evaluations += 1;
    st.traces += 1;
    let verdict = if q.is_empty() { None } else { ref_bidi(&q) };
    let exp = match verdict {
        None | Some(true) => Out::Ok(s.to_string()),
        Some(false) => Out::Err(E::Invalid),
    };
    if got != exp {
        let kind = if matches!(got, Out::Panic(_)) {
            "panic"
        } else if verdict == Some(true) && got == Out::Err(E::Invalid) && interior_nsm(&q) {
            "bidi_interior_nsm"
        } else if matches!((&got, &exp), (Out::Ok(_), Out::Ok(_))) {
            "modified"
        } else if matches!(got, Out::Ok(_)) {
            "wrong_accept"
        } else {
            "wrong_reject"
        };
        st.violation(
            kind,
            || {
                let c = Case::new("dir").s(s).x(json!(p.name()));
                if crate::subject::use_default() {
                    c.n(1) // found through a Default-constructed profile
                } else {
                    c
                }
            },
            format!("{} (classes {:?})", show_out(&exp), q),
            show_out(&got),
        );
    }
    verdict
}

fn count(v: Option<bool>, st: &mut Stats) {
    st.count(match v {
        None => "out:not-rtl-accept",
        Some(true) => "out:rtl-accept",
        Some(false) => "out:rtl-reject",
    });
    if v.is_some() {
        st.nontrivial += 1;
    }
}

// ---------------------------------------------------------------------------
// (d) conformance by the W-method: unbounded length under a state-count assumption
// ---------------------------------------------------------------------------

/// State of the specification automaton over the 23 classes. `interior` = a non-NSM has
/// followed an NSM. With `strict_nsm` the automaton is the behaviour the repository's own
/// tests pin (the known finding): RFC 5893 AND no interior NSM; without it, RFC 5893 itself.
#[derive(Clone, PartialEq, Eq, Hash, Debug)]
pub struct BidiState {
    first: u8,     // 0 none yet, 1 R/AL, 2 L, 3 anything else
    has_rtl: bool, // some R / AL / AN seen
    bad_rtl: bool, // a class not allowed in an RTL label seen
    bad_ltr: bool, // a class not allowed in an LTR label seen
    en: bool,
    an: bool,
    last: u8, // last non-NSM: 0 none, 1 R/AL, 2 EN, 3 AN, 4 L, 5 other
    nsm_seen: bool,
    interior: bool,
}

impl BidiState {
    pub fn init() -> BidiState {
        BidiState { first: 0, has_rtl: false, bad_rtl: false, bad_ltr: false, en: false, an: false, last: 0, nsm_seen: false, interior: false }
    }
    pub fn step(&self, sym: usize) -> BidiState {
        let c = BIDI_CLASSES[sym];
        let mut s = self.clone();
        if s.first == 0 {
            s.first = match c {
                "R" | "AL" => 1,
                "L" => 2,
                _ => 3,
            };
        }
        if matches!(c, "R" | "AL" | "AN") {
            s.has_rtl = true;
        }
        if !matches!(c, "R" | "AL" | "AN" | "EN" | "ES" | "CS" | "ET" | "ON" | "BN" | "NSM") {
            s.bad_rtl = true;
        }
        if !matches!(c, "L" | "EN" | "ES" | "CS" | "ET" | "ON" | "BN" | "NSM") {
            s.bad_ltr = true;
        }
        if c == "EN" {
            s.en = true;
        }
        if c == "AN" {
            s.an = true;
        }
        if c == "NSM" {
            s.nsm_seen = true;
        } else {
            if s.nsm_seen {
                s.interior = true;
            }
            s.last = match c {
                "R" | "AL" => 1,
                "EN" => 2,
                "AN" => 3,
                "L" => 4,
                _ => 5,
            };
        }
        s
    }
    pub fn accepts(&self, strict_nsm: bool) -> bool {
        if !self.has_rtl {
            return true; // the rule does not apply
        }
        let rfc = match self.first {
            1 => !self.bad_rtl && matches!(self.last, 1 | 2 | 3) && !(self.en && self.an),
            2 => !self.bad_ltr && matches!(self.last, 4 | 2),
            _ => false,
        };
        rfc && !(strict_nsm && self.interior)
    }
}

/// run the W-method suite of the specification automaton against directionality_rule
pub fn wmethod(_env: &Env, reps: &[(String, char)], strict_nsm: bool, extra_states: usize, st: &mut Stats) -> serde_json::Value {
    use crate::wmethod::explore;
    let (dfa, states) = explore(BidiState::init(), 23, |s, a| s.step(a), |s| s.accepts(strict_nsm));
    // sanity of the automaton against the set-predicate reference on every sequence up to length 4
    let mut frontier: Vec<Vec<usize>> = vec![vec![]];
    for _ in 0..=4 {
        let mut next = Vec::new();
        for w in &frontier {
            let q: Vec<&str> = w.iter().map(|a| BIDI_CLASSES[*a]).collect();
            let rfc = if q.is_empty() { true } else { !matches!(ref_bidi(&q), Some(false)) };
            let interior = interior_nsm(&q) && q.iter().any(|c| matches!(*c, "R" | "AL" | "AN"));
            let expect = rfc && !(strict_nsm && interior);
            if dfa.run(w) != expect {
                st.caps_hit.push(format!("MACHINERY: specification automaton disagrees with the reference predicates on {:?}", q));
                return json!({"status": "automaton invalid"});
            }
            if w.len() < 4 {
                for a in 0..23 {
                    let mut v = w.clone();
                    v.push(a);
                    next.push(v);
                }
            }
        }
        frontier = next;
        if frontier.is_empty() {
            break;
        }
    }
    let min = dfa.minimize();
    let suite = min.wmethod_suite(extra_states);
    let alpha: Vec<char> = BIDI_CLASSES.iter().map(|c| reps.iter().find(|(n, _)| n == c).map(|(_, ch)| *ch).unwrap()).collect();
    let res = run_family_words(&suite, |w, st| {
        let s: String = w.iter().map(|a| alpha[*a]).collect();
        let got = rule(Prof::Ucm, RuleFn::Dir, &s);
        st.evaluations += 1;
        st.traces += 1;
        let exp = if min.run(w) { Out::Ok(s.clone()) } else { Out::Err(E::Invalid) };
        if got != exp {
            let q: Vec<&str> = w.iter().map(|a| BIDI_CLASSES[*a]).collect();
            st.violation(
                if matches!(got, Out::Panic(_)) { "panic" } else { "conformance" },
                || Case::new("dir").s(&s).x(json!(Prof::Ucm.name())),
                format!("{} (specification automaton, classes {:?})", show_out(&exp), q),
                show_out(&got),
            );
        }
    });
    st.merge(res);
    json!({
        "specification": if strict_nsm { "RFC 5893 AND no non-NSM after an NSM (the behaviour recorded as known finding bidi_interior_nsm)" } else { "RFC 5893" },
        "reachable_states": states.len(),
        "minimal_states": min.trans.len(),
        "characterization_set_size": min.characterization_set().len(),
        "extra_states_allowed": extra_states,
        "tests": suite.len(),
        "longest_test": suite.iter().map(|w| w.len()).max().unwrap_or(0),
        "claim": format!("if all tests pass, directionality_rule equals the specification on class sequences of EVERY length, provided its own minimal automaton over the 23 classes has at most {} states", min.trans.len() + extra_states),
    })
}

fn run_family_words<F>(words: &[Vec<usize>], f: F) -> Stats
where
    F: Fn(&[usize], &mut Stats) + Sync,
{
    let shards: Vec<Stats> = words
        .par_chunks(512)
        .map(|chunk| {
            let mut st = Stats::default();
            for w in chunk {
                st.states += 1;
                st.transitions += 1;
                f(w, &mut st);
            }
            st
        })
        .collect();
    let mut total = Stats::default();
    for s in shards {
        total.merge(s);
    }
    total
}

/// exact relation between the two specification automata (product construction): every
/// string RFC 5893 accepts and the strict automaton rejects has an interior NSM
pub fn relation_rfc_vs_strict() -> Result<usize, String> {
    use crate::wmethod::explore;
    let (_, states) = explore(BidiState::init(), 23, |s, a| s.step(a), |s| s.accepts(false));
    for s in &states {
        let (rfc, strict) = (s.accepts(false), s.accepts(true));
        if strict && !rfc {
            return Err(format!("strict accepts what RFC rejects in state {:?}", s));
        }
        if rfc && !strict && !s.interior {
            return Err(format!("difference without interior NSM in state {:?}", s));
        }
    }
    Ok(states.len())
}

pub fn run(env: &Env, run: &Run) -> (Stats, Coverage) {
    let mut st = Stats::default();
    let reps = match representatives(env, run.seed) {
        Ok(r) => r,
        Err(e) => {
            st.caps_hit.push(format!("MACHINERY: {}", e));
            vec![]
        }
    };
    let alpha: Vec<char> = reps.iter().map(|(_, c)| *c).collect();
    let n = run.tier.pick(6, 7);
    st.merge(strtree(&alpha, n, |chars, s, st| {
        let v = check_label(env, Prof::Ucm, s, st);
        count(v, st);
        if chars.len() <= 3 {
            // the case-preserved profile exposes the same rule
            check_label(env, Prof::Ucp, s, st);
        }
    }));
    // (b) the generated class table, every assigned code point in five contexts
    let r = reps.iter().find(|(c, _)| c == "R").map(|(_, c)| *c as u32).unwrap_or(0x5D0);
    let an = reps.iter().find(|(c, _)| c == "AN").map(|(_, c)| *c as u32).unwrap_or(0x660);
    let l = reps.iter().find(|(c, _)| c == "L").map(|(_, c)| *c as u32).unwrap_or(0x41);
    let chunks: Vec<u32> = (0..0x110000u32).step_by(0x1000).collect();
    let shards: Vec<Stats> = chunks
        .par_iter()
        .map(|&base| {
            let mut st = Stats::default();
            for cp in base..base + 0x1000 {
                if char::from_u32(cp).is_none() || !env.ud16.assigned(cp) {
                    continue;
                }
                st.states += 1;
                for lab in [vec![cp], vec![r, cp], vec![r, cp, r], vec![r, an, cp, r], vec![l, cp, l]] {
                    st.transitions += 1;
                    let s = from_cps(&lab);
                    let v = check_label(env, Prof::Ucm, &s, &mut st);
                    count(v, &mut st);
                }
                // the code point next to each of its 16 other-plane aliases (plane-blind lookups)
                for a in alias_chars(char::from_u32(cp).unwrap()) {
                    let a = a as u32;
                    if !env.ud16.assigned(a) {
                        continue;
                    }
                    for lab in [vec![cp, a], vec![a, cp], vec![r, a, cp, r]] {
                        st.transitions += 1;
                        let s = from_cps(&lab);
                        check_label(env, Prof::Ucm, &s, &mut st);
                    }
                    // far apart / behind a long prefix (lookups memoised per call for long labels
                    // only), wherever the two differ in class; fillers: digits (EN, fine in both
                    // kinds of label) and letters
                    if cp < a && env.ud16.bidi(cp) != env.ud16.bidi(a) {
                        for (fill, n) in [(0x31u32, 40usize), (0x61, 40), (0x5D1, 20)] {
                            for (p, q) in [(cp, a), (a, cp)] {
                                for lab in [
                                    [vec![p], vec![fill; n], vec![q]].concat(),
                                    [vec![fill; n], vec![p, q]].concat(),
                                    [vec![p, q], vec![fill; n]].concat(),
                                    [vec![r, p], vec![fill; n], vec![q, r]].concat(),
                                ] {
                                    st.transitions += 1;
                                    let s = from_cps(&lab);
                                    check_label(env, Prof::Ucm, &s, &mut st);
                                }
                            }
                        }
                    }
                }
            }
            st
        })
        .collect();
    for s in shards {
        st.merge(s);
    }
    // (b') the same table sweep on ONE thread, ascending then descending (per-thread lazily
    // built tables, slot counters, eviction)
    st.merge(cpsweep_sequential(|c, st| {
        let cp = c as u32;
        if !env.ud16.assigned(cp) {
            return;
        }
        for lab in [vec![cp], vec![r, cp], vec![l, cp, l]] {
            let s = from_cps(&lab);
            check_label(env, Prof::Ucm, &s, st);
            // ... and through a profile obtained from Default (the other public constructor)
            crate::subject::with_default_ctor(|| check_label(env, Prof::Ucp, &s, st));
        }
        // the next scalar value right behind it (a cursor that walks the table entry by entry)
        if let Some(nx) = (cp + 1..=0x10FFFF).find_map(char::from_u32) {
            check_label(env, Prof::Ucm, &from_cps(&[cp, nx as u32]), st);
            check_label(env, Prof::Ucm, &from_cps(&[nx as u32, cp]), st);
        }
    }));
    // (b'') neighbour pairs: every assigned non-L code point b next to every other assigned code
    // point a of its own 256-block, as [a, b] and as [R, a, b, R] (lookup state carried from one
    // character of a label to the next)
    {
        let blocks: Vec<u32> = (0..0x1100u32).collect();
        let shards: Vec<Stats> = blocks
            .par_iter()
            .map(|blk| {
                let mut st = Stats::default();
                let lo = blk << 8;
                let members: Vec<u32> = (lo..lo + 256).filter(|c| char::from_u32(*c).is_some() && env.ud16.assigned(*c)).collect();
                let non_l: Vec<u32> = members.iter().copied().filter(|c| env.ud16.bidi(*c) != Some("L")).collect();
                if lite() && blk % 7 != 0 {
                    return st;
                }
                for &b in &non_l {
                    st.states += 1;
                    for &a in &members {
                        if a == b {
                            continue;
                        }
                        for lab in [vec![a, b], vec![r, a, b, r]] {
                            st.transitions += 1;
                            let s = from_cps(&lab);
                            check_label(env, Prof::Ucm, &s, &mut st);
                        }
                    }
                }
                st
            })
            .collect();
        for s in shards {
            st.merge(s);
        }
    }
    // (c) pumped runs over the class representatives: a^k b, b a^k, a^k b a for k up to 1025
    {
        // ... the shorter ones and the class representatives inside ASCII labels at every address
        // residue (sub-slices of a larger buffer)
        let mut fam = pumped(&alpha, &PUMP_LENGTHS);
        fam.extend(sparse_blocks(&alpha, run.tier));
        st.merge(run_family_placed(&fam, &placements(run.tier), |s, st| {
            let v = check_label(env, Prof::Ucm, s, st);
            count(v, st);
        }));
        let fam = pumped(&alpha, &PUMP_LENGTHS_LONG);
        st.merge(run_family(&fam, |s, st| {
            let v = check_label(env, Prof::Ucm, s, st);
            count(v, st);
        }));
    }
    // (c') every run length up to a little over a page, for the class pairs that decide a label
    {
        let rep = |n: &str| reps.iter().find(|(c, _)| c == n).map(|(_, ch)| *ch);
        let names = [("R", "L"), ("R", "EN"), ("AL", "AN"), ("R", "NSM"), ("L", "R"), ("R", "R"), ("AL", "L"), ("EN", "R")];
        let pairs: Vec<(char, char)> = names.iter().filter_map(|(a, b)| Some((rep(a)?, rep(b)?))).collect();
        st.merge(run_all_lengths(&pairs, run.tier.pick(4200, 16500), |s, st| {
            let v = check_label(env, Prof::Ucm, s, st);
            count(v, st);
        }));
    }
    // (c'') two-symbol prefix + run + suffix over the classes that carry state through a label:
    // [p, q] a^k [r] for every k up to 130 (what was seen before a long run must still count after it)
    {
        let rep = |n: &str| reps.iter().find(|(c, _)| c == n).map(|(_, ch)| *ch);
        let cls: Vec<char> = ["R", "AL", "L", "EN", "AN", "NSM"].iter().filter_map(|n| rep(n)).collect();
        let mut combos: Vec<(char, char, char, char)> = Vec::new();
        for &p in &cls {
            for &q in &cls {
                for &a in &cls {
                    for &r in &cls {
                        combos.push((p, q, a, r));
                    }
                }
            }
        }
        let shards: Vec<Stats> = {
            use rayon::prelude::*;
            combos
                .par_iter()
                .map(|&(p, q, a, r)| {
                    let mut st = Stats::default();
                    let mut s = String::new();
                    s.push(p);
                    s.push(q);
                    for _k in 0..=run.tier.pick(130usize, 260usize) {
                        s.push(r);
                        st.states += 1;
                        st.transitions += 1;
                        let v = check_label(env, Prof::Ucm, &s, &mut st);
                        count(v, &mut st);
                        s.pop();
                        s.push(a);
                    }
                    st
                })
                .collect()
        };
        for x in shards {
            st.merge(x);
        }
    }
    // (d) W-method conformance against the specification automaton
    let strict = run.is_known("bidi_interior_nsm").is_some();
    let wm = if reps.len() == 23 {
        let rel = relation_rfc_vs_strict();
        if let Err(e) = &rel {
            st.caps_hit.push(format!("MACHINERY: {}", e));
        }
        wmethod(env, &reps, strict, run.tier.pick(2, 4), &mut st)
    } else {
        json!(null)
    };
    st.sample(json!({"classes": ["R", "NSM", "R"], "expected": "accept (RFC 5893: NSM allowed anywhere in an RTL label; last non-NSM is R)"}));
    st.sample(json!({"classes": ["R", "EN", "AN"], "expected": "Err(Invalid): EN and AN mixed"}));
    st.sample(json!({"classes": ["L", "R"], "expected": "Err(Invalid): R in an LTR label"}));
    st.sample(json!({"classes": ["EN", "L"], "expected": "Ok unchanged: no R/AL/AN, rule does not apply"}));
    let cov = Coverage {
        rule: format!("(a) every sequence of length <= {} over the 23 bidirectional classes (one representative code point per class, rotated by VERIF_SEED) through directionality_rule; (b) every code point assigned in the profile crate's UnicodeData in the contexts c, Rc, RcR, R AN c R, LcL and next to each of its assigned 16 other-plane aliases; (d) the complete W-method test suite of the specification automaton (see 'wmethod'); (b'') every assigned non-L code point next to every other assigned code point of its own 256-block, in two contexts; (b') the table sweep repeated on one thread in ascending and descending order; (c) pumped runs a^k b, b a^k, a^k b a over the 23 representatives for k in 6..9, 15..17, 30..33, 63..65, 127..129, 255..257, 1023, 1025; oracle = the six RFC 5893 conditions as set predicates over the class sequence (not a scan), classes from an independent reader of UnicodeData; Ok results must equal the input; non-trivial = labels that contain R/AL/AN (the rule is actually judged)", n),
        alphabet: json!(reps.iter().map(|(c, ch)| format!("{}=U+{:04X}", c, *ch as u32)).collect::<Vec<_>>()),
        bound_completed: format!("all {} class sequences of length <= {}; table: every assigned code point x 5 contexts", tree_size(23, n), n),
        exhaustive: false,
        assumptions: vec!["the scan's state (direction, previous class, nsm/en/an flags) is reached by <= 4 symbols, so length 5-7 exercises every transition out of every reachable state plus the end-of-label test; a change that adds a counter beyond that is outside the bound".into()],
        extra: json!({"wmethod": wm}),
    };
    (st, cov)
}

pub fn replay(env: &Env, case: &Case) -> Vec<Violation> {
    let mut st = Stats::default();
    if case.op == "dir" {
        if let Some(p) = case.extra.as_str().and_then(Prof::from_name) {
            if case.nums.first() == Some(&1) {
                crate::subject::with_default_ctor(|| check_label(env, p, &case.str_at(0), &mut st));
            } else {
                check_label(env, p, &case.str_at(0), &mut st);
            }
        }
    }
    st.violations
}
