//! Reference pipelines for the four profiles, composed from the step models.

use crate::env::Env;
use crate::refmodel::*;
use crate::subject::{rule, Class, Out, OutB, Prof, RuleFn, E};

/// Acceptable results: `primary`, or `alt` where the property is lenient
/// (undefined-context error for a contextual code point at a label edge).
#[derive(Clone, Debug, PartialEq, Eq)]
pub struct Expect {
    pub primary: Out,
    pub alt: Option<Out>,
    /// index of the step that produced the result (0 = first), for statistics
    pub step: u8,
    /// how many steps changed the string
    pub changed_steps: u8,
}

impl Expect {
    pub fn accepts(&self, got: &Out) -> bool {
        *got == self.primary || self.alt.as_ref() == Some(got)
    }
    pub fn show(&self) -> String {
        match &self.alt {
            Some(a) => format!("{} or {}", show_out(&self.primary), show_out(a)),
            None => show_out(&self.primary),
        }
    }
    fn ok(s: String, step: u8, changed: u8) -> Expect {
        Expect { primary: Out::Ok(s), alt: None, step, changed_steps: changed }
    }
    fn err(e: E, step: u8, changed: u8) -> Expect {
        Expect { primary: Out::Err(e), alt: None, step, changed_steps: changed }
    }
}

pub fn show_out(o: &Out) -> String {
    match o {
        Out::Ok(s) => format!("Ok({})", crate::subject::show(s)),
        Out::Err(e) => format!("Err({:?})", e),
        Out::Panic(p) => format!("PANIC({})", p),
    }
}

pub fn show_outb(o: &OutB) -> String {
    match o {
        OutB::Ok(b) => format!("Ok({})", b),
        OutB::Err(e) => format!("Err({:?})", e),
        OutB::Panic(p) => format!("PANIC({})", p),
    }
}

/// validation step: Ok(()) or the expected rejection
fn validate(env: &Env, class: Class, s: &str, step: u8, changed: u8) -> Result<(), Expect> {
    let l: Vec<u32> = s.chars().map(|c| c as u32).collect();
    match ref_allows(&env.u63, |cp| env.dpt.get(class, char::from_u32(cp).unwrap()), &l) {
        AllowsExpect::Accept => Ok(()),
        AllowsExpect::Reject { cp, idx, dp, undefined_ok, .. } => Err(Expect {
            primary: Out::Err(E::Bad(cp, idx, dp)),
            alt: if undefined_ok { Some(Out::Err(E::Undefined)) } else { None },
            step,
            changed_steps: changed,
        }),
    }
}

pub fn ref_prepare(env: &Env, p: Prof, s: &str) -> Expect {
    match p {
        Prof::Ucm | Prof::Ucp => {
            let w = ref_width(&env.ud16, s);
            let ch = (w != s) as u8;
            if w.is_empty() {
                return Expect::err(E::Invalid, 1, ch);
            }
            if let Err(e) = validate(env, Class::Identifier, &w, 2, ch) {
                return e;
            }
            Expect::ok(w, 2, ch)
        }
        Prof::Opaque | Prof::Nick => {
            if s.is_empty() {
                return Expect::err(E::Invalid, 0, 0);
            }
            if let Err(e) = validate(env, Class::Freeform, s, 1, 0) {
                return e;
            }
            Expect::ok(s.to_string(), 1, 0)
        }
    }
}

/// one application of the nickname enforcement rules
pub fn nick_round(env: &Env, s: &str) -> Expect {
    if s.is_empty() {
        return Expect::err(E::Invalid, 0, 0);
    }
    if let Err(e) = validate(env, Class::Freeform, s, 1, 0) {
        return e;
    }
    let a = ref_space_nick(&env.ud16, s);
    let mut ch = (a != s) as u8;
    let b = ref_nfkc(&a);
    ch += (b != a) as u8;
    if b.is_empty() {
        return Expect::err(E::Invalid, 4, ch);
    }
    Expect::ok(b, 3, ch)
}

/// one application of the nickname comparison rules
pub fn nick_cmp_round(env: &Env, s: &str) -> Expect {
    if s.is_empty() {
        return Expect::err(E::Invalid, 0, 0);
    }
    if let Err(e) = validate(env, Class::Freeform, s, 1, 0) {
        return e;
    }
    let a = ref_space_nick(&env.ud16, s);
    let b = ref_lower(&a);
    let c = ref_nfkc(&b);
    let ch = (a != s) as u8 + (b != a) as u8 + (c != b) as u8;
    if c.is_empty() {
        return Expect::err(E::Invalid, 5, ch);
    }
    Expect::ok(c, 4, ch)
}

/// iterate a round function per RFC 8264 s.7; returns (expectation, rounds used)
pub fn iterate<F: Fn(&Env, &str) -> Expect>(env: &Env, s: &str, round: F) -> (Expect, usize) {
    let mut cur = s.to_string();
    let mut changed = 0u8;
    for a in 1..=4usize {
        let r = round(env, &cur);
        match &r.primary {
            Out::Ok(n) => {
                if *n == cur {
                    return (Expect { primary: Out::Ok(cur), alt: None, step: a as u8, changed_steps: changed }, a);
                }
                changed += 1;
                cur = n.clone();
            }
            _ => {
                return (Expect { step: a as u8, changed_steps: changed, ..r }, a);
            }
        }
    }
    (Expect::err(E::Invalid, 4, changed), 4)
}

pub fn ref_enforce(env: &Env, p: Prof, s: &str) -> Expect {
    match p {
        Prof::Ucm | Prof::Ucp => {
            let pr = ref_prepare(env, p, s);
            let w = match &pr.primary {
                Out::Ok(w) => w.clone(),
                _ => return pr,
            };
            let mut ch = pr.changed_steps;
            let lowered = if p == Prof::Ucm { ref_lower(&w) } else { w.clone() };
            ch += (lowered != w) as u8;
            let n = ref_nfc(&lowered);
            ch += (n != lowered) as u8;
            if n.is_empty() {
                return Expect::err(E::Invalid, 5, ch);
            }
            // directionality: black box (C09 owns it)
            match rule(p, RuleFn::Dir, &n) {
                Out::Ok(d) => Expect::ok(d, 6, ch),
                Out::Err(e) => Expect::err(e, 6, ch),
                Out::Panic(pn) => Expect { primary: Out::Panic(pn), alt: None, step: 6, changed_steps: ch },
            }
        }
        Prof::Opaque => {
            let pr = ref_prepare(env, p, s);
            let w = match &pr.primary {
                Out::Ok(w) => w.clone(),
                _ => return pr,
            };
            let a = ref_space_opaque(&env.ud16, &w);
            let n = ref_nfc(&a);
            let ch = (a != w) as u8 + (n != a) as u8;
            if n.is_empty() {
                return Expect::err(E::Invalid, 4, ch);
            }
            Expect::ok(n, 3, ch)
        }
        Prof::Nick => iterate(env, s, nick_round).0,
    }
}

/// canonical comparison form of one operand according to the reference
pub fn ref_canon(env: &Env, p: Prof, s: &str) -> Expect {
    match p {
        Prof::Nick => iterate(env, s, nick_cmp_round).0,
        _ => ref_enforce(env, p, s),
    }
}
