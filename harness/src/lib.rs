pub mod engine;
pub mod env;
pub mod pipeline;
pub mod props;
pub mod refmodel;
pub mod subject;
pub mod tables;
pub mod ucd;
