pub mod engine;
pub mod env;
pub mod props;
pub mod refmodel;
pub mod subject;
pub mod ucd;
