//! Reader for the Rust table files emitted by the generators (a 60-line
//! line scanner, independent of the generators' own writer).

#[derive(Clone, Debug, PartialEq)]
pub struct Entry {
    pub start: u32,
    pub end: u32,
    pub single: bool,
    pub value: Option<String>,
}

#[derive(Clone, Debug)]
pub struct Table {
    pub name: String,
    pub declared_len: usize,
    pub entries: Vec<Entry>,
}

fn hex_after<'a>(s: &'a str, pat: &str) -> Option<(u32, &'a str)> {
    let i = s.find(pat)? + pat.len();
    let rest = &s[i..];
    let rest = rest.trim_start().strip_prefix("0x")?;
    let end = rest.find(|c: char| !c.is_ascii_hexdigit()).unwrap_or(rest.len());
    Some((u32::from_str_radix(&rest[..end], 16).ok()?, &rest[end..]))
}

pub fn parse_tables(text: &str) -> Result<Vec<Table>, String> {
    let mut out = Vec::new();
    let mut cur: Option<Table> = None;
    for (ln, line) in text.lines().enumerate() {
        let t = line.trim();
        // a table item: `static` or `const`, whatever its visibility (the item kind and the
        // visibility say nothing about what the table denotes)
        let item = {
            let mut r = t;
            for vis in ["pub(crate) ", "pub(super) ", "pub "] {
                if let Some(x) = r.strip_prefix(vis) {
                    r = x;
                    break;
                }
            }
            r.strip_prefix("static ").or_else(|| r.strip_prefix("const ")).filter(|x| x.contains(": [") && x.trim_end().ends_with('['))
        };
        if let Some(rest) = item {
            let colon = rest.find(':').ok_or(format!("line {}: no colon", ln + 1))?;
            let name = rest[..colon].trim().to_string();
            let semi = rest.rfind(';').ok_or(format!("line {}: no length", ln + 1))?;
            let close = rest[semi..].find(']').ok_or(format!("line {}: no ]", ln + 1))?;
            let len: usize = rest[semi + 1..semi + close].trim().parse().map_err(|_| format!("line {}: bad length", ln + 1))?;
            cur = Some(Table { name, declared_len: len, entries: vec![] });
            continue;
        }
        if t == "];" {
            if let Some(c) = cur.take() {
                out.push(c);
            }
            continue;
        }
        if let Some(c) = cur.as_mut() {
            if t.is_empty() {
                continue;
            }
            const R: &str = "Codepoints::Range(std::ops::RangeInclusive::new(";
            const S: &str = "Codepoints::Single(";
            let (start, end, single, rest) = if t.contains(R) {
                let (a, r1) = hex_after(t, R).ok_or(format!("line {}: bad range", ln + 1))?;
                let (b, r2) = hex_after(r1, ",").ok_or(format!("line {}: bad range end", ln + 1))?;
                let r2 = r2.trim_start().strip_prefix("))").ok_or(format!("line {}: bad range close", ln + 1))?;
                (a, b, false, r2)
            } else if t.contains(S) {
                let (a, r1) = hex_after(t, S).ok_or(format!("line {}: bad single", ln + 1))?;
                let r1 = r1.trim_start().strip_prefix(')').ok_or(format!("line {}: bad single close", ln + 1))?;
                (a, a, true, r1)
            } else {
                return Err(format!("line {}: unrecognised entry '{}'", ln + 1, t));
            };
            let value = if t.starts_with('(') {
                let r = rest.trim_start().strip_prefix(',').ok_or(format!("line {}: no value", ln + 1))?;
                let r = r.trim();
                let r = r.strip_suffix("),").or_else(|| r.strip_suffix(')')).ok_or(format!("line {}: value not closed", ln + 1))?;
                Some(r.trim().to_string())
            } else {
                None
            };
            c.entries.push(Entry { start, end, single, value });
        }
    }
    if cur.is_some() {
        return Err("unterminated table".into());
    }
    Ok(out)
}

/// Interval-with-value list denoted by a table, in emission order, with the
/// order / overlap defects found on the way.
pub struct Denotation {
    /// merged maximal intervals (start, end, value)
    pub intervals: Vec<(u32, u32, Option<String>)>,
    pub degenerate: usize,
    pub order_defects: Vec<String>,
}

pub fn denote(t: &Table) -> Denotation {
    let mut intervals: Vec<(u32, u32, Option<String>)> = Vec::new();
    let mut degenerate = 0;
    let mut order_defects = Vec::new();
    let mut prev_end: Option<u32> = None;
    for e in &t.entries {
        if e.start > e.end {
            degenerate += 1;
            continue;
        }
        if let Some(pe) = prev_end {
            if e.start <= pe {
                order_defects.push(format!("entry [{:04X},{:04X}] does not start after the previous entry's end {:04X}", e.start, e.end, pe));
            }
        }
        prev_end = Some(prev_end.map(|p| p.max(e.end)).unwrap_or(e.end));
        match intervals.last_mut() {
            Some((_, le, lv)) if *le != u32::MAX && *le + 1 == e.start && *lv == e.value => *le = e.end,
            _ => intervals.push((e.start, e.end, e.value.clone())),
        }
    }
    Denotation { intervals, degenerate, order_defects }
}

/// merge a sorted list of (start,end,value) into maximal intervals
pub fn merge_intervals(mut v: Vec<(u32, u32, Option<String>)>) -> Vec<(u32, u32, Option<String>)> {
    v.sort_by_key(|x| x.0);
    let mut out: Vec<(u32, u32, Option<String>)> = Vec::new();
    for (s, e, val) in v {
        match out.last_mut() {
            Some((_, le, lv)) if *le + 1 == s && *lv == val => *le = e,
            _ => out.push((s, e, val)),
        }
    }
    out
}
