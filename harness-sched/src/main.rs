//! Schedule explorer for C16(c): every interleaving of a few threads over the
//! lazy-singleton points of the real crates (lazy_static patched by the shim),
//! deviation-bounded DFS with replayable schedules.

use lazy_static::verif::{self, Point, Scheduler};
use precis_core::profile::{PrecisFastInvocation, Profile};
use precis_core::Error;
use precis_profiles::{Nickname, OpaqueString, UsernameCaseMapped, UsernameCasePreserved};
use serde_json::{json, Value};
use std::borrow::Cow;
use std::cell::Cell;
use std::collections::BTreeMap;
use std::panic::{catch_unwind, AssertUnwindSafe};
use std::sync::{Arc, Condvar, Mutex};
use std::time::{Duration, Instant};

// ---------------------------------------------------------------------------
// operations
// ---------------------------------------------------------------------------

const INPUTS: [&str; 20] = [
    "abc",
    "Abc",
    "\u{e9}\u{3000}\u{ff22}",
    "\u{a8}a",
    "a\u{9}",
    "\u{5d0}1",
    "\u{5d0}a",
    "\u{e9}",             // letter without compatibility decomposition
    "\u{aa}",             // HasCompat: rejected by IdentifierClass, accepted by FreeformClass
    "a\u{ff22}\u{ff76}", // width-mapped characters from the middle of the mapping table
    "\u{e0}",             // the oldest entry of the warm-up history
    "\u{b5}",             // a second HasCompat letter in the same 64-code-point block as U+00AA
    // 12..17: characters whose code points agree in their low 8 / 10 / 12 bits but differ in every
    // per-code-point attribute (direction, case): two entries of any direct-mapped table
    // (each inside a label whose verdict changes if the character gets the other one's class)
    "\u{5d0}\u{627}", // 12  Hebrew alef (R) + Arabic alef: valid RTL; invalid if U+05D0 is taken for L
    "\u{4d0}a",       // 13  U+05D0 xor 2^8: Cyrillic capital (L) + a: invalid if taken for R
    "\u{1d0}a",       // 14  U+05D0 xor 2^10: Latin small letter (L) + a
    "\u{15d0}a",      // 15  U+05D0 xor 2^12: Canadian syllabics (L) + a
    "\u{400}",  // 16  Cyrillic capital IE with grave
    "\u{500}",  // 17  = U+0400 xor 2^8: Cyrillic capital KOMI DE (another cased letter, another mapping)
    "\u{4aa}",  // 18  U+00AA xor 2^10: a PVALID Cyrillic letter (U+00AA itself is input 8)
    "\u{2aa}",  // 19  U+00AA xor 2^9: a PVALID IPA letter
];

/// input number i: the fixed ones above, or (100 + k) = the k-th nickname of a call history
fn input(i: usize) -> String {
    if i >= 100 {
        format!("  Guest   {:02}  \u{2163} ", i - 100)
    } else {
        INPUTS[i].to_string()
    }
}

/// a call history executed by the driver thread of the child *before* the scheduled threads
/// start: `n` distinct non-ASCII letters (fills per-code-point caches of that size)
fn warm_up(n: usize) -> String {
    (0..n).filter_map(|i| char::from_u32(0xE0 + i as u32 + (i as u32 / 23) * 9)).filter(|c| c.is_alphabetic()).collect()
}

#[derive(Copy, Clone, Debug, PartialEq, Eq)]
enum P {
    Ucm,
    Ucp,
    Opq,
    Nick,
}
#[derive(Copy, Clone, Debug, PartialEq, Eq)]
enum O {
    Prepare,
    Enforce,
    Compare,
}
type Call = (P, O, usize);

fn show(r: Result<Cow<'_, str>, Error>) -> String {
    match r {
        Ok(c) => format!("Ok({:?})", c),
        Err(e) => format!("Err({:?})", e),
    }
}
fn showb(r: Result<bool, Error>) -> String {
    match r {
        Ok(c) => format!("Ok({})", c),
        Err(e) => format!("Err({:?})", e),
    }
}

fn run_static(c: Call) -> String {
    let owned = input(c.2);
    let s = owned.as_str();
    let r = catch_unwind(AssertUnwindSafe(|| match (c.0, c.1) {
        (P::Ucm, O::Prepare) => show(<UsernameCaseMapped as PrecisFastInvocation>::prepare(s)),
        (P::Ucm, O::Enforce) => show(<UsernameCaseMapped as PrecisFastInvocation>::enforce(s)),
        (P::Ucm, O::Compare) => showb(<UsernameCaseMapped as PrecisFastInvocation>::compare(s, "ABC")),
        (P::Ucp, O::Prepare) => show(<UsernameCasePreserved as PrecisFastInvocation>::prepare(s)),
        (P::Ucp, O::Enforce) => show(<UsernameCasePreserved as PrecisFastInvocation>::enforce(s)),
        (P::Ucp, O::Compare) => showb(<UsernameCasePreserved as PrecisFastInvocation>::compare(s, "ABC")),
        (P::Opq, O::Prepare) => show(<OpaqueString as PrecisFastInvocation>::prepare(s)),
        (P::Opq, O::Enforce) => show(<OpaqueString as PrecisFastInvocation>::enforce(s)),
        (P::Opq, O::Compare) => showb(<OpaqueString as PrecisFastInvocation>::compare(s, "ABC")),
        (P::Nick, O::Prepare) => show(<Nickname as PrecisFastInvocation>::prepare(s)),
        (P::Nick, O::Enforce) => show(<Nickname as PrecisFastInvocation>::enforce(s)),
        (P::Nick, O::Compare) => showb(<Nickname as PrecisFastInvocation>::compare(s, "ABC")),
    }));
    match r {
        Ok(s) => s,
        Err(e) => {
            if e.downcast_ref::<Abort>().is_some() {
                std::panic::resume_unwind(e);
            }
            "PANIC".to_string()
        }
    }
}

/// reference: fresh instance, no statics involved
fn run_fresh(c: Call) -> String {
    let owned = input(c.2);
    let s = owned.as_str();
    match (c.0, c.1) {
        (P::Ucm, O::Prepare) => show(UsernameCaseMapped::new().prepare(s)),
        (P::Ucm, O::Enforce) => show(UsernameCaseMapped::new().enforce(s)),
        (P::Ucm, O::Compare) => showb(UsernameCaseMapped::new().compare(s, "ABC")),
        (P::Ucp, O::Prepare) => show(UsernameCasePreserved::new().prepare(s)),
        (P::Ucp, O::Enforce) => show(UsernameCasePreserved::new().enforce(s)),
        (P::Ucp, O::Compare) => showb(UsernameCasePreserved::new().compare(s, "ABC")),
        (P::Opq, O::Prepare) => show(OpaqueString::new().prepare(s)),
        (P::Opq, O::Enforce) => show(OpaqueString::new().enforce(s)),
        (P::Opq, O::Compare) => showb(OpaqueString::new().compare(s, "ABC")),
        (P::Nick, O::Prepare) => show(Nickname::new().prepare(s)),
        (P::Nick, O::Enforce) => show(Nickname::new().enforce(s)),
        (P::Nick, O::Compare) => showb(Nickname::new().compare(s, "ABC")),
    }
}

// ---------------------------------------------------------------------------
// scheduler
// ---------------------------------------------------------------------------

struct Abort;

#[derive(Copy, Clone, Debug, PartialEq, Eq)]
enum Status {
    Runnable,
    Blocked(usize),
    Finished,
}

#[derive(Clone, Debug)]
struct ChoicePoint {
    enabled: Vec<usize>,
    chosen_idx: usize,
    running_enabled: bool,
}

struct Inner {
    status: Vec<Status>,
    current: Option<usize>,
    prefix: Vec<usize>,
    trace: Vec<ChoicePoint>,
    abort: Option<String>,
    inits: BTreeMap<usize, usize>,
    initialisers: BTreeMap<usize, Vec<usize>>,
    derefs: BTreeMap<usize, usize>,
    points: usize,
    blocked_seen: bool,
    last_progress: Instant,
}

struct Sched {
    inner: Mutex<Inner>,
    cv: Condvar,
}

thread_local! {
    static TID: Cell<Option<usize>> = Cell::new(None);
}

impl Sched {
    fn new(n: usize, prefix: Vec<usize>) -> Sched {
        Sched {
            inner: Mutex::new(Inner {
                status: vec![Status::Runnable; n],
                current: None,
                prefix,
                trace: Vec::new(),
                abort: None,
                inits: BTreeMap::new(),
                initialisers: BTreeMap::new(),
                derefs: BTreeMap::new(),
                points: 0,
                blocked_seen: false,
                last_progress: Instant::now(),
            }),
            cv: Condvar::new(),
        }
    }

    /// pick the next thread to run; `me` = thread making the decision (None for the driver)
    fn schedule(&self, g: &mut Inner, me: Option<usize>) {
        let mut enabled: Vec<usize> = Vec::new();
        let running_enabled = matches!(me, Some(m) if g.status[m] == Status::Runnable);
        if running_enabled {
            enabled.push(me.unwrap());
        }
        for (i, s) in g.status.iter().enumerate() {
            if *s == Status::Runnable && Some(i) != me {
                enabled.push(i);
            }
        }
        if enabled.is_empty() {
            if g.status.iter().all(|s| *s == Status::Finished) {
                g.current = None;
            } else {
                g.abort = Some(format!("deadlock: no enabled thread, status {:?}", g.status));
                g.current = None;
            }
            return;
        }
        let step = g.trace.len();
        let idx = if step < g.prefix.len() {
            let i = g.prefix[step];
            if i >= enabled.len() {
                g.abort = Some(format!("replay diverged at step {}: choice {} but only {} enabled", step, i, enabled.len()));
                g.current = None;
                return;
            }
            i
        } else {
            0
        };
        g.current = Some(enabled[idx]);
        g.trace.push(ChoicePoint { enabled, chosen_idx: idx, running_enabled });
        g.last_progress = Instant::now();
    }

    fn wait_turn(&self, mut g: std::sync::MutexGuard<'_, Inner>, me: usize) {
        loop {
            if g.abort.is_some() {
                drop(g);
                std::panic::resume_unwind(Box::new(Abort));
            }
            if g.current == Some(me) {
                return;
            }
            g = self.cv.wait_timeout(g, Duration::from_millis(200)).unwrap().0;
        }
    }

    fn start(&self, me: usize) {
        TID.with(|t| t.set(Some(me)));
        let g = self.inner.lock().unwrap();
        self.wait_turn(g, me);
    }

    fn finish(&self, me: usize) {
        let mut g = self.inner.lock().unwrap();
        g.status[me] = Status::Finished;
        self.schedule(&mut g, Some(me));
        self.cv.notify_all();
        TID.with(|t| t.set(None));
    }
}

impl Scheduler for Sched {
    fn controls_current_thread(&self) -> bool {
        TID.with(|t| t.get().is_some())
    }
    fn point(&self, p: Point, lazy: usize) {
        let me = match TID.with(|t| t.get()) {
            Some(m) => m,
            None => return,
        };
        let mut g = self.inner.lock().unwrap();
        g.points += 1;
        match p {
            Point::Enter => *g.derefs.entry(lazy).or_insert(0) += 1,
            Point::BeforeInit => {
                *g.inits.entry(lazy).or_insert(0) += 1;
                g.initialisers.entry(lazy).or_default().push(me);
            }
            Point::Published => {
                for s in g.status.iter_mut() {
                    if *s == Status::Blocked(lazy) {
                        *s = Status::Runnable;
                    }
                }
            }
            Point::Blocked => {
                g.status[me] = Status::Blocked(lazy);
                g.blocked_seen = true;
            }
            Point::Exit | Point::Sync => {}
            Point::Released => {
                for s in g.status.iter_mut() {
                    if *s == Status::Blocked(lazy) {
                        *s = Status::Runnable;
                    }
                }
                // releasing is not a yield point: the thread keeps running
                return;
            }
        }
        self.schedule(&mut g, Some(me));
        self.cv.notify_all();
        self.wait_turn(g, me);
    }
}

// ---------------------------------------------------------------------------
// one execution
// ---------------------------------------------------------------------------

#[derive(Clone, Debug)]
struct Execution {
    trace: Vec<ChoicePoint>,
    results: Vec<Vec<String>>,
    inits: BTreeMap<usize, usize>,
    initialisers: BTreeMap<usize, Vec<usize>>,
    blocked_seen: bool,
    derefs: BTreeMap<usize, usize>,
    abort: Option<String>,
    points: usize,
}

static WARM: std::sync::atomic::AtomicUsize = std::sync::atomic::AtomicUsize::new(0);
static HIST: std::sync::atomic::AtomicUsize = std::sync::atomic::AtomicUsize::new(0);

fn execute_here(threads: &[Vec<Call>], prefix: &[usize]) -> Execution {
    verif::reset_all();
    let w = WARM.load(std::sync::atomic::Ordering::SeqCst);
    let h = HIST.load(std::sync::atomic::Ordering::SeqCst);
    for k in 0..h {
        // a single-threaded history of distinct calls through the static API of every profile
        let s = input(100 + k);
        let _ = <Nickname as PrecisFastInvocation>::enforce(s.as_str());
        let _ = <OpaqueString as PrecisFastInvocation>::enforce(s.as_str());
        let t = format!("guest{:02}", k);
        let _ = <UsernameCaseMapped as PrecisFastInvocation>::enforce(t.as_str());
        let _ = <UsernameCasePreserved as PrecisFastInvocation>::enforce(t.as_str());
    }
    if w > 0 {
        // uncontrolled, single-threaded history before the scheduled part
        let s = warm_up(w);
        let _ = <UsernameCasePreserved as PrecisFastInvocation>::prepare(s.as_str());
        let _ = <Nickname as PrecisFastInvocation>::prepare(s.as_str());
    }
    let n = threads.len();
    let sched = Arc::new(Sched::new(n, prefix.to_vec()));
    verif::install(Some(sched.clone() as Arc<dyn Scheduler>));
    let mut handles = Vec::new();
    for (i, ops) in threads.iter().enumerate() {
        let ops = ops.clone();
        let s = sched.clone();
        handles.push(std::thread::spawn(move || {
            let r = catch_unwind(AssertUnwindSafe(|| {
                s.start(i);
                let mut out = Vec::new();
                for c in ops {
                    out.push(run_static(c));
                }
                out
            }));
            match r {
                Ok(out) => {
                    s.finish(i);
                    out
                }
                Err(_) => {
                    TID.with(|t| t.set(None));
                    let mut g = s.inner.lock().unwrap();
                    if g.abort.is_none() {
                        g.abort = Some(format!("thread {} panicked", i));
                    }
                    g.status[i] = Status::Finished;
                    s.cv.notify_all();
                    vec!["ABORTED".to_string()]
                }
            }
        }));
    }
    {
        // the driver makes the first choice: which thread starts
        let mut g = sched.inner.lock().unwrap();
        sched.schedule(&mut g, None);
        sched.cv.notify_all();
    }
    // watchdog: a hand-off that never happens is unmodelled blocking
    loop {
        std::thread::sleep(Duration::from_micros(50));
        let mut g = sched.inner.lock().unwrap();
        if g.status.iter().all(|s| *s == Status::Finished) || g.abort.is_some() {
            break;
        }
        if g.last_progress.elapsed() > Duration::from_secs(15) {
            g.abort = Some("watchdog: no scheduling point reached for 15 s (unmodelled blocking?)".into());
            sched.cv.notify_all();
            break;
        }
    }
    let aborted = sched.inner.lock().unwrap().abort.is_some();
    let mut results = Vec::new();
    for h in handles {
        if aborted {
            // blocked threads unwind through Abort once they observe the flag
            sched.cv.notify_all();
        }
        results.push(h.join().unwrap_or_else(|_| vec!["JOIN-PANIC".to_string()]));
    }
    verif::install(None);
    let g = sched.inner.lock().unwrap();
    Execution { trace: g.trace.clone(), results, inits: g.inits.clone(), initialisers: g.initialisers.clone(), blocked_seen: g.blocked_seen, derefs: g.derefs.clone(), abort: g.abort.clone(), points: g.points }
}


// ---------------------------------------------------------------------------
// one execution = one forked child process
// ---------------------------------------------------------------------------
// Every execution must start from the state of a process that has never called the
// library: the property is about the *first use* of lazily created state, and a seeded
// defect may keep such state in any static (atomics, OnceLock, Mutex<Option<..>>), not
// only in lazy_static cells that the shim could reset. So the (single-threaded) driver
// forks; the child runs the schedule with real threads, writes what it observed to a
// pipe and _exits. The parent never calls into the library itself.

extern "C" {
    fn fork() -> i32;
    fn pipe(fds: *mut i32) -> i32;
    fn close(fd: i32) -> i32;
    fn waitpid(pid: i32, status: *mut i32, options: i32) -> i32;
    fn _exit(code: i32) -> !;
    fn write(fd: i32, buf: *const u8, n: usize) -> isize;
    fn read(fd: i32, buf: *mut u8, n: usize) -> isize;
}

fn exec_to_json(x: &Execution) -> Value {
    json!({
        "trace": x.trace.iter().map(|c| json!([c.enabled, c.chosen_idx, c.running_enabled])).collect::<Vec<_>>(),
        "results": x.results,
        "inits": x.inits.iter().map(|(k, v)| json!([k, v])).collect::<Vec<_>>(),
        "initialisers": x.initialisers.iter().map(|(k, v)| json!([k, v])).collect::<Vec<_>>(),
        "derefs": x.derefs.iter().map(|(k, v)| json!([k, v])).collect::<Vec<_>>(),
        "blocked_seen": x.blocked_seen,
        "abort": x.abort,
        "points": x.points,
    })
}

fn exec_from_json(v: &Value) -> Option<Execution> {
    let pairs = |k: &str| -> BTreeMap<usize, usize> {
        v[k].as_array().map(|a| a.iter().filter_map(|p| Some((p[0].as_u64()? as usize, p[1].as_u64()? as usize))).collect()).unwrap_or_default()
    };
    Some(Execution {
        trace: v["trace"]
            .as_array()?
            .iter()
            .filter_map(|c| {
                Some(ChoicePoint {
                    enabled: c[0].as_array()?.iter().filter_map(|x| x.as_u64().map(|x| x as usize)).collect(),
                    chosen_idx: c[1].as_u64()? as usize,
                    running_enabled: c[2].as_bool()?,
                })
            })
            .collect(),
        results: v["results"].as_array()?.iter().map(|t| t.as_array().map(|a| a.iter().filter_map(|s| s.as_str().map(|s| s.to_string())).collect()).unwrap_or_default()).collect(),
        inits: pairs("inits"),
        initialisers: v["initialisers"]
            .as_array()
            .map(|a| a.iter().filter_map(|p| Some((p[0].as_u64()? as usize, p[1].as_array()?.iter().filter_map(|x| x.as_u64().map(|x| x as usize)).collect()))).collect())
            .unwrap_or_default(),
        blocked_seen: v["blocked_seen"].as_bool().unwrap_or(false),
        derefs: pairs("derefs"),
        abort: v["abort"].as_str().map(|s| s.to_string()),
        points: v["points"].as_u64().unwrap_or(0) as usize,
    })
}

/// a forked child that is still running (or finished but not yet collected)
struct Child {
    pid: i32,
    fd: i32,
}

/// fork; the child runs `f`, writes its result to a pipe and _exits
fn spawn_child<F: FnOnce() -> String>(f: F) -> Result<Child, String> {
    let mut fds = [0i32; 2];
    unsafe {
        if pipe(fds.as_mut_ptr()) != 0 {
            return Err("pipe failed".into());
        }
        let pid = fork();
        if pid < 0 {
            close(fds[0]);
            close(fds[1]);
            return Err("fork failed".into());
        }
        if pid == 0 {
            close(fds[0]);
            let out = f();
            let b = out.as_bytes();
            let mut off = 0usize;
            while off < b.len() {
                let n = write(fds[1], b.as_ptr().add(off), b.len() - off);
                if n <= 0 {
                    break;
                }
                off += n as usize;
            }
            close(fds[1]);
            _exit(0);
        }
        close(fds[1]);
        Ok(Child { pid, fd: fds[0] })
    }
}

/// read the child's report to EOF and reap it
fn collect_child(c: Child) -> Result<String, String> {
    unsafe {
        let mut buf = Vec::new();
        let mut chunk = [0u8; 65536];
        loop {
            let n = read(c.fd, chunk.as_mut_ptr(), chunk.len());
            if n <= 0 {
                break;
            }
            buf.extend_from_slice(&chunk[..n as usize]);
        }
        close(c.fd);
        let mut status = 0i32;
        waitpid(c.pid, &mut status, 0);
        if status != 0 {
            return Err(format!("child process ended with wait status {:#x} (crash or abort under this schedule)", status));
        }
        Ok(String::from_utf8_lossy(&buf).to_string())
    }
}

fn in_child<F: FnOnce() -> String>(f: F) -> Result<String, String> {
    collect_child(spawn_child(f)?)
}

fn parse_execution(r: Result<String, String>) -> Execution {
    let died = |why: String| Execution { trace: vec![], results: vec![], inits: BTreeMap::new(), initialisers: BTreeMap::new(), blocked_seen: false, derefs: BTreeMap::new(), abort: Some(why), points: 0 };
    match r {
        Ok(text) => match serde_json::from_str::<Value>(&text).ok().and_then(|v| exec_from_json(&v)) {
            Some(x) => x,
            None => died("child produced no report".into()),
        },
        Err(e) => died(e),
    }
}

fn execute(threads: &[Vec<Call>], prefix: &[usize]) -> Execution {
    parse_execution(in_child(|| exec_to_json(&execute_here(threads, prefix)).to_string()))
}

/// single-threaded reference results, computed in a fresh process as well
fn expected_results(threads: &[Vec<Call>]) -> Vec<Vec<String>> {
    let r = in_child(|| json!(threads.iter().map(|t| t.iter().map(|c| run_fresh(*c)).collect::<Vec<_>>()).collect::<Vec<_>>()).to_string());
    match r.ok().and_then(|t| serde_json::from_str::<Value>(&t).ok()) {
        Some(v) => v.as_array().map(|a| a.iter().map(|t| t.as_array().map(|x| x.iter().filter_map(|s| s.as_str().map(|s| s.to_string())).collect()).unwrap_or_default()).collect()).unwrap_or_default(),
        None => vec![],
    }
}

fn choices(x: &Execution) -> Vec<usize> {
    x.trace.iter().map(|c| c.chosen_idx).collect()
}

/// thread ids in the order they were given the baton
fn schedule_of(x: &Execution) -> Vec<usize> {
    x.trace.iter().map(|c| c.enabled[c.chosen_idx]).collect()
}

// ---------------------------------------------------------------------------
// exploration
// ---------------------------------------------------------------------------

struct Explorer<'a> {
    threads: &'a [Vec<Call>],
    expected: Vec<Vec<String>>,
    bound: usize,
    executions: u64,
    transitions: u64,
    max_points: usize,
    outcomes: BTreeMap<String, u64>,
    violations: Vec<Value>,
    cap: u64,
    capped: bool,
    name: String,
    pruned: bool,
    machinery: Vec<String>,
    last_round: u64,
    t0: Instant,
    wall_cap: Duration,
}

impl<'a> Explorer<'a> {
    fn check(&mut self, x: &Execution) {
        self.executions += 1;
        self.transitions += x.trace.len() as u64;
        self.max_points = self.max_points.max(x.points);
        let mut problems = Vec::new();
        if let Some(a) = &x.abort {
            if a.starts_with("watchdog") || a.starts_with("replay diverged") || a.contains("no report") || a.contains("fork failed") || a.contains("pipe failed") {
                // the explorer could not follow this execution (a blocking primitive it does not
                // intercept, or its own trouble): a machinery problem, never a verdict
                if self.machinery.len() < 3 {
                    self.machinery.push(format!("{}: {} (schedule {:?})", self.name, a, schedule_of(x)));
                }
                return;
            }
            problems.push(format!("aborted: {}", a));
        }
        if x.results != self.expected {
            problems.push(format!("results {:?} differ from the single-threaded fresh-instance results {:?}", x.results, self.expected));
        }
        for (l, n) in &x.derefs {
            let i = x.inits.get(l).copied().unwrap_or(0);
            // after a warm-up history the singleton may already exist (0 initialisations here)
            let warmed = WARM.load(std::sync::atomic::Ordering::SeqCst) > 0 || HIST.load(std::sync::atomic::Ordering::SeqCst) > 0;
            if *n > 0 && (i > 1 || (i == 0 && !warmed)) {
                problems.push(format!("lazy {:#x} dereferenced {} times but initialiser ran {} times", l, n, i));
            }
        }
        // observable outcome incl. which thread initialised each singleton and whether anyone had to wait
        let key = format!("{:?}|initialisers={:?}|waited={}", x.results, x.initialisers.values().collect::<Vec<_>>(), x.blocked_seen);
        *self.outcomes.entry(key).or_insert(0) += 1;
        if !problems.is_empty() && self.violations.len() < 5 {
            self.violations.push(json!({"scenario": self.name, "choices": choices(x), "schedule": schedule_of(x), "problems": problems}));
        }
    }

    /// One round at the current preemption bound. Executions are forked children, up to
    /// `WORKERS` at a time; completions are consumed strictly in submission order, so the set
    /// of explored schedules and the order in which they are judged do not depend on timing.
    fn explore(&mut self, root: Vec<usize>) {
        const WORKERS: usize = 12;
        let mut stack: Vec<Vec<usize>> = vec![root];
        let mut running: std::collections::VecDeque<(Vec<usize>, Result<Child, String>)> = std::collections::VecDeque::new();
        loop {
            while running.len() < WORKERS && !stack.is_empty() {
                if self.executions + running.len() as u64 >= self.cap || self.t0.elapsed() > self.wall_cap {
                    self.capped = true;
                    stack.clear();
                    break;
                }
                let prefix = stack.pop().unwrap();
                let threads = self.threads;
                let p2 = prefix.clone();
                let child = spawn_child(move || exec_to_json(&execute_here(threads, &p2)).to_string());
                running.push_back((prefix, child));
            }
            let (prefix, child) = match running.pop_front() {
                Some(j) => j,
                None => break,
            };
            let x = parse_execution(child.and_then(collect_child));
            self.check(&x);
            if x.abort.is_some() {
                continue;
            }
            let ch = choices(&x);
            // preemptions used before each point
            let mut used = 0usize;
            let mut before = Vec::with_capacity(x.trace.len());
            for c in &x.trace {
                before.push(used);
                if c.running_enabled && c.chosen_idx != 0 {
                    used += 1;
                }
            }
            let mut kids: Vec<Vec<usize>> = Vec::new();
            for i in prefix.len()..x.trace.len() {
                let p = &x.trace[i];
                let cost = before[i] + if p.running_enabled { 1 } else { 0 };
                if cost > self.bound {
                    if p.enabled.len() > 1 {
                        self.pruned = true;
                    }
                    continue;
                }
                for alt in 1..p.enabled.len() {
                    let mut np = ch[..i].to_vec();
                    np.push(alt);
                    kids.push(np);
                }
            }
            // depth-first flavour: the earliest deviation is explored first
            for k in kids.into_iter().rev() {
                stack.push(k);
            }
        }
    }

    /// iterative context bounding: everything with 0 preemptions, then 1, then 2, ...
    /// until nothing is pruned (= all interleavings), the scenario's bound, or a cap
    fn explore_iteratively(&mut self, max_bound: usize) -> (usize, bool) {
        let mut b = 0usize;
        loop {
            self.bound = b;
            self.pruned = false;
            let before = self.executions;
            self.explore(vec![]);
            self.last_round = self.executions - before;
            if self.capped {
                return (b.saturating_sub(1), false);
            }
            if !self.pruned {
                return (b, true); // nothing was cut: the space is fully covered
            }
            if b >= max_bound || !self.violations.is_empty() {
                return (b, false);
            }
            // 0, 1, 2, 3, then straight to the scenario's own bound (usually: none). When the last
            // round cannot finish under the caps, bound 3 is what has been completed.
            b = if b < 3 { b + 1 } else { max_bound };
        }
    }
}

fn scenarios(thorough: bool) -> Vec<(String, Vec<Vec<Call>>, usize)> {
    let mut v: Vec<(String, Vec<Vec<Call>>, usize)> = Vec::new();
    let unbounded = usize::MAX / 2;
    // same singleton from both threads, starting uninitialised; the username scenarios carry
    // a valid and an invalid right-to-left label so that every rule's first use is raced
    v.push(("2x2-nick".into(), vec![vec![(P::Nick, O::Enforce, 3), (P::Nick, O::Compare, 1)], vec![(P::Nick, O::Enforce, 2), (P::Nick, O::Prepare, 4)]], unbounded));
    v.push(("2x2-ucm".into(), vec![vec![(P::Ucm, O::Enforce, 5), (P::Ucm, O::Compare, 1)], vec![(P::Ucm, O::Enforce, 6), (P::Ucm, O::Prepare, 2)]], unbounded));
    if thorough {
        v.push(("2x2-ucp".into(), vec![vec![(P::Ucp, O::Enforce, 6), (P::Ucp, O::Compare, 1)], vec![(P::Ucp, O::Enforce, 5), (P::Ucp, O::Prepare, 4)]], unbounded));
        v.push(("2x2-opq".into(), vec![vec![(P::Opq, O::Enforce, 3), (P::Opq, O::Compare, 1)], vec![(P::Opq, O::Enforce, 2), (P::Opq, O::Prepare, 4)]], unbounded));
    }
    // two singletons taken in opposite orders
    v.push(("2x2-cross".into(), vec![vec![(P::Nick, O::Enforce, 3), (P::Ucm, O::Enforce, 6)], vec![(P::Ucm, O::Compare, 5), (P::Nick, O::Compare, 2)]], unbounded));
    // three threads, one call each
    let b3 = if thorough { unbounded } else { 2 };
    v.push(("3x1-nick".into(), vec![vec![(P::Nick, O::Enforce, 3)], vec![(P::Nick, O::Compare, 1)], vec![(P::Nick, O::Prepare, 4)]], b3));
    v.push(("3x1-mixed".into(), vec![vec![(P::Ucm, O::Enforce, 6)], vec![(P::Ucp, O::Compare, 5)], vec![(P::Opq, O::Enforce, 2)]], b3));
    // every per-code-point answer raced against a conflicting one (compat / non-compat, mapped / unmapped)
    v.push(("2x2-classes".into(), vec![vec![(P::Ucp, O::Prepare, 7), (P::Ucp, O::Prepare, 8)], vec![(P::Ucp, O::Prepare, 8), (P::Ucp, O::Prepare, 9)]], unbounded));
    // two HasCompat letters of the same 64-code-point block looked up in opposite orders, twice
    // (a memo word shared by neighbouring code points; the second calls observe what the race left)
    v.push(("2x2-block".into(), vec![vec![(P::Ucp, O::Prepare, 8), (P::Ucp, O::Prepare, 11)], vec![(P::Ucp, O::Prepare, 11), (P::Ucp, O::Prepare, 8)]], unbounded));
    // aliasing code points looked up in opposite orders, twice (an entry written in two steps can be
    // seen half-updated; the second calls observe what the race left behind)
    let alias: Vec<(&str, P, usize, usize)> = if thorough {
        vec![("2x2-alias8", P::Ucp, 12, 13), ("2x2-alias10", P::Ucp, 12, 14), ("2x2-alias12", P::Ucp, 12, 15), ("2x2-alias-case", P::Ucm, 16, 17), ("2x2-alias-dp10", P::Ucp, 8, 18), ("2x2-alias-dp9", P::Ucp, 8, 19)]
    } else {
        vec![("2x2-alias10", P::Ucp, 12, 14), ("2x2-alias-case", P::Ucm, 16, 17), ("2x2-alias-dp10", P::Ucp, 8, 18)]
    };
    for (name, p, a, b) in alias {
        v.push((name.into(), vec![vec![(p, O::Enforce, a), (p, O::Enforce, b)], vec![(p, O::Enforce, b), (p, O::Enforce, a)]], unbounded));
    }
    // non-initial state: a history of K distinct calls through the static API, then two threads
    // repeat two of the oldest calls of that history
    for k in if thorough { vec![8usize, 24, 40] } else { vec![24usize] } {
        v.push((format!("hist{}-2x1", k), vec![vec![(P::Nick, O::Enforce, 100)], vec![(P::Nick, O::Enforce, 101)]], unbounded));
    }
    // non-initial state: the child first runs a call history over N distinct letters, then two threads
    // look up the oldest letter of that history and a letter of a different class
    for n in if thorough { vec![8usize, 16, 32, 64] } else { vec![32usize] } {
        v.push((format!("warm{}-2x1", n), vec![vec![(P::Ucp, O::Prepare, 10)], vec![(P::Ucp, O::Prepare, 8)]], unbounded));
    }
    if thorough {
        v.push(("3x2-nick-b3".into(), vec![vec![(P::Nick, O::Enforce, 3), (P::Nick, O::Compare, 1)], vec![(P::Nick, O::Compare, 2), (P::Nick, O::Enforce, 0)], vec![(P::Nick, O::Prepare, 4), (P::Nick, O::Enforce, 5)]], 3));
        v.push(("3x2-all-b3".into(), vec![vec![(P::Ucm, O::Enforce, 1), (P::Nick, O::Compare, 1)], vec![(P::Ucp, O::Compare, 2), (P::Ucm, O::Enforce, 5)], vec![(P::Nick, O::Prepare, 3), (P::Opq, O::Enforce, 2)]], 3));
        v.push(("2x3-cross".into(), vec![vec![(P::Nick, O::Enforce, 3), (P::Ucm, O::Enforce, 1), (P::Opq, O::Compare, 2)], vec![(P::Opq, O::Enforce, 2), (P::Ucm, O::Compare, 5), (P::Nick, O::Compare, 2)]], unbounded));
    }
    v
}

fn main() {
    let args: Vec<String> = std::env::args().collect();
    std::panic::set_hook(Box::new(|_| {}));
    let thorough = args.iter().any(|a| a == "thorough");
    // replay mode: pmc-sched replay <scenario> <comma separated choices>
    if args.get(1).map(|s| s.as_str()) == Some("replay") {
        let name = args.get(2).cloned().unwrap_or_default();
        let ch: Vec<usize> = args.get(3).map(|s| s.split(',').filter_map(|x| x.parse().ok()).collect()).unwrap_or_default();
        let sc = scenarios(true).into_iter().find(|s| s.0 == name);
        let out = match sc {
            None => json!({"error": "unknown scenario"}),
            Some((name, threads, bound)) => {
                let warm = name.strip_prefix("warm").and_then(|r| r.split('-').next()).and_then(|n| n.parse::<usize>().ok()).unwrap_or(0);
                WARM.store(warm, std::sync::atomic::Ordering::SeqCst);
                let hist = name.strip_prefix("hist").and_then(|r| r.split('-').next()).and_then(|n| n.parse::<usize>().ok()).unwrap_or(0);
                HIST.store(hist, std::sync::atomic::Ordering::SeqCst);
                let expected: Vec<Vec<String>> = expected_results(&threads);
                let mut e = Explorer { threads: &threads, expected, bound, executions: 0, transitions: 0, max_points: 0, outcomes: BTreeMap::new(), violations: vec![], cap: 1, capped: false, name, pruned: false, machinery: vec![], last_round: 0, t0: Instant::now(), wall_cap: Duration::from_secs(60) };
                let a = execute(&threads, &ch);
                let b = execute(&threads, &ch);
                let det = a.results == b.results && choices(&a) == choices(&b) && a.inits == b.inits;
                e.check(&a);
                json!({"deterministic": det, "violations": e.violations})
            }
        };
        println!("{}", out);
        return;
    }
    let mut report = Vec::new();
    let mut total_exec = 0u64;
    let mut total_trans = 0u64;
    let mut all_viol = Vec::new();
    let mut errors: Vec<String> = Vec::new();
    let cap = if thorough { 2_000_000 } else { 60_000 };
    let only: Option<String> = args.iter().position(|a| a == "only").and_then(|i| args.get(i + 1).cloned());
    for (name, threads, bound) in scenarios(thorough) {
        if let Some(o) = &only {
            if *o != name {
                continue;
            }
        }
        let warm = name.strip_prefix("warm").and_then(|r| r.split('-').next()).and_then(|n| n.parse::<usize>().ok()).unwrap_or(0);
        WARM.store(warm, std::sync::atomic::Ordering::SeqCst);
        let hist = name.strip_prefix("hist").and_then(|r| r.split('-').next()).and_then(|n| n.parse::<usize>().ok()).unwrap_or(0);
        HIST.store(hist, std::sync::atomic::Ordering::SeqCst);
        let expected: Vec<Vec<String>> = expected_results(&threads);
        let t0 = Instant::now();
        let mut e = Explorer { threads: &threads, expected, bound, executions: 0, transitions: 0, max_points: 0, outcomes: BTreeMap::new(), violations: vec![], cap, capped: false, name: name.clone(), pruned: false, machinery: vec![], last_round: 0, t0: Instant::now(), wall_cap: Duration::from_secs(if thorough { 240 } else { 6 }) };
        let (bound_done, complete) = e.explore_iteratively(bound);
        // determinism: replay the last complete default schedule twice
        let a = execute(&threads, &[]);
        let b = execute(&threads, &choices(&a));
        if a.results != b.results || choices(&a) != choices(&b) {
            errors.push(format!("{}: replaying the same schedule gave different observations", name));
        }
        errors.extend(e.machinery.iter().cloned());
        total_exec += e.executions;
        total_trans += e.transitions;
        report.push(json!({
            "scenario": name,
            "threads": threads.iter().map(|t| t.iter().map(|c| format!("{:?}.{:?}({:?})", c.0, c.1, input(c.2))).collect::<Vec<_>>()).collect::<Vec<_>>(),
            "preemption_bound": if bound > 1000 { json!("unbounded") } else { json!(bound) },
            "schedules": e.executions,
            "schedules_in_last_round": e.last_round,
            "preemption_bound_completed": if bound_done > 1000 { json!("unbounded") } else { json!(bound_done) },
            "all_interleavings_covered": complete,
            "choice_points": e.transitions,
            "max_points_in_one_execution": e.max_points,
            "distinct_outcomes": e.outcomes.len(),
            "capped": e.capped,
            "wall_s": t0.elapsed().as_secs_f64(),
        }));
        all_viol.extend(e.violations);
    }
    println!("{}", json!({"scenarios": report, "schedules": total_exec, "choice_points": total_trans, "violations": all_viol, "errors": errors}));
}
