#!/bin/bash
# Build the framework offline from files on disk only.
set -e
cd "$(dirname "$0")"
export CARGO_NET_OFFLINE=true
./check --build-only
