// Scheduler-aware replacement for lazy_static's `Lazy<T>`.
//
// Without an installed scheduler (build scripts, ordinary runs, uncontrolled
// threads) it behaves like `std::sync::Once` + cell: exactly one initialiser
// runs, other threads wait for it. With a scheduler installed, the calling
// thread reports a *point* before the state check (Enter), before running the
// initialiser (BeforeInit), after publishing the value (Published), when it
// finds another thread initialising (Blocked) and on exit (Exit); the scheduler
// decides at each point which controlled thread runs next.

extern crate core;
extern crate std;

use self::std::cell::UnsafeCell;
use self::std::prelude::v1::*;
use self::std::sync::atomic::{AtomicBool, Ordering};
use self::std::sync::{Condvar, Mutex};

const UNINIT: u8 = 0;
const RUNNING: u8 = 1;
const DONE: u8 = 2;

#[allow(dead_code)] // Used in macros
pub struct Lazy<T: Sync> {
    state: Mutex<u8>,
    cv: Condvar,
    cell: UnsafeCell<Option<T>>,
    registered: AtomicBool,
}

pub mod verif {
    extern crate std;
    use self::std::prelude::v1::*;
    use self::std::sync::{Arc, Mutex, RwLock};

    #[derive(Copy, Clone, Debug, PartialEq, Eq)]
    pub enum Point {
        Enter,
        BeforeInit,
        Published,
        Blocked,
        Exit,
        /// before an operation on an instrumented std::sync primitive (sched_sync)
        Sync,
        /// an instrumented lock / once cell was released: wake threads blocked on it
        Released,
    }

    /// Installed by the harness. `point` is called on the thread that reached it and
    /// returns when that thread may continue. `controls_current_thread` must be cheap.
    pub trait Scheduler: Send + Sync {
        fn controls_current_thread(&self) -> bool;
        fn point(&self, p: Point, lazy_id: usize);
    }

    pub trait Resettable: Sync {
        fn reset(&self);
        fn id(&self) -> usize;
    }

    static SCHED: RwLock<Option<Arc<dyn Scheduler>>> = RwLock::new(None);
    static REGISTRY: Mutex<Vec<&'static dyn Resettable>> = Mutex::new(Vec::new());

    pub fn install(s: Option<Arc<dyn Scheduler>>) {
        *SCHED.write().unwrap() = s;
    }

    /// the scheduler, if one is installed and it controls the calling thread
    pub fn current() -> Option<Arc<dyn Scheduler>> {
        let g = SCHED.read().unwrap();
        match g.as_ref() {
            Some(s) if s.controls_current_thread() => Some(s.clone()),
            _ => None,
        }
    }

    pub fn register(r: &'static dyn Resettable) {
        REGISTRY.lock().unwrap().push(r);
    }

    /// Return every lazy that was touched under a scheduler to the uninitialised
    /// state (old values are leaked). Call only when no controlled thread runs.
    pub fn reset_all() -> usize {
        let g = REGISTRY.lock().unwrap();
        for r in g.iter() {
            r.reset();
        }
        g.len()
    }

    pub fn registered_ids() -> Vec<usize> {
        REGISTRY.lock().unwrap().iter().map(|r| r.id()).collect()
    }
}

impl<T: Sync> verif::Resettable for Lazy<T> {
    fn reset(&self) {
        let mut st = self.state.lock().unwrap();
        unsafe {
            let old = (*self.cell.get()).take();
            std::mem::forget(old);
        }
        *st = UNINIT;
    }
    fn id(&self) -> usize {
        self as *const Self as *const () as usize
    }
}

impl<T: Sync> Lazy<T> {
    pub const INIT: Self = Lazy {
        state: Mutex::new(UNINIT),
        cv: Condvar::new(),
        cell: UnsafeCell::new(None),
        registered: AtomicBool::new(false),
    };

    pub fn get<F>(&'static self, f: F) -> &T
    where
        F: FnOnce() -> T,
    {
        let id = self as *const Self as *const () as usize;
        let sched = verif::current();
        if let Some(s) = &sched {
            if !self.registered.swap(true, Ordering::SeqCst) {
                verif::register(self);
            }
            s.point(verif::Point::Enter, id);
        }
        let mut f = Some(f);
        loop {
            let mut st = self.state.lock().unwrap();
            match *st {
                DONE => break,
                UNINIT => {
                    *st = RUNNING;
                    drop(st);
                    if let Some(s) = &sched {
                        s.point(verif::Point::BeforeInit, id);
                    }
                    let v = (f.take().unwrap())();
                    unsafe {
                        *self.cell.get() = Some(v);
                    }
                    *self.state.lock().unwrap() = DONE;
                    self.cv.notify_all();
                    if let Some(s) = &sched {
                        s.point(verif::Point::Published, id);
                    }
                    break;
                }
                _ => match &sched {
                    Some(s) => {
                        drop(st);
                        // returns once the initialising thread has published
                        s.point(verif::Point::Blocked, id);
                    }
                    None => {
                        while *st == RUNNING {
                            st = self.cv.wait(st).unwrap();
                        }
                    }
                },
            }
        }
        if let Some(s) = &sched {
            s.point(verif::Point::Exit, id);
        }
        unsafe { (*self.cell.get()).as_ref().unwrap() }
    }
}

unsafe impl<T: Sync> Sync for Lazy<T> {}

#[macro_export]
#[doc(hidden)]
macro_rules! __lazy_static_create {
    ($NAME:ident, $T:ty) => {
        static $NAME: $crate::lazy::Lazy<$T> = $crate::lazy::Lazy::INIT;
    };
}
