// Copyright 2016 lazy-static.rs Developers
//
// Licensed under the Apache License, Version 2.0, <LICENSE-APACHE or
// https://apache.org/licenses/LICENSE-2.0> or the MIT license <LICENSE-MIT or
// https://opensource.org/licenses/MIT>, at your option. This file may not be
// copied, modified, or distributed except according to those terms.

/*!
A macro for declaring lazily evaluated statics.

Using this macro, it is possible to have `static`s that require code to be
executed at runtime in order to be initialized.
This includes anything requiring heap allocations, like vectors or hash maps,
as well as anything that requires function calls to be computed.

# Syntax

```ignore
lazy_static! {
    [pub] static ref NAME_1: TYPE_1 = EXPR_1;
    [pub] static ref NAME_2: TYPE_2 = EXPR_2;
    ...
    [pub] static ref NAME_N: TYPE_N = EXPR_N;
}
```

Attributes (including doc comments) are supported as well:

```rust
use lazy_static::lazy_static;

# fn main() {
lazy_static! {
    /// This is an example for using doc comment attributes
    static ref EXAMPLE: u8 = 42;
}
# }
```

# Semantics

For a given `static ref NAME: TYPE = EXPR;`, the macro generates a unique type that
implements `Deref<TYPE>` and stores it in a static with name `NAME`. (Attributes end up
attaching to this type.)

On first deref, `EXPR` gets evaluated and stored internally, such that all further derefs
can return a reference to the same object. Note that this can lead to deadlocks
if you have multiple lazy statics that depend on each other in their initialization.

Apart from the lazy initialization, the resulting "static ref" variables
have generally the same properties as regular "static" variables:

- Any type in them needs to fulfill the `Sync` trait.
- If the type has a destructor, then it will not run when the process exits.

# Example

Using the macro:

```rust
use lazy_static::lazy_static;
use std::collections::HashMap;

lazy_static! {
    static ref HASHMAP: HashMap<u32, &'static str> = {
        let mut m = HashMap::new();
        m.insert(0, "foo");
        m.insert(1, "bar");
        m.insert(2, "baz");
        m
    };
    static ref COUNT: usize = HASHMAP.len();
    static ref NUMBER: u32 = times_two(21);
}

fn times_two(n: u32) -> u32 { n * 2 }

fn main() {
    println!("The map has {} entries.", *COUNT);
    println!("The entry for `0` is \"{}\".", HASHMAP.get(&0).unwrap());
    println!("A expensive calculation on a static results in: {}.", *NUMBER);
}
```

# Implementation details

The `Deref` implementation uses a hidden static variable that is guarded by an atomic check on each access.

# Cargo features

This crate provides one cargo feature:

- `spin_no_std`: This allows using this crate in a no-std environment, by depending on the standalone `spin` crate.

*/

#![doc(html_root_url = "https://docs.rs/lazy_static/1.5.0")]
#![no_std]

// VERIFICATION SHIM: identical macros to lazy_static 1.5.0; only the `lazy`
// module (the cell behind every `static ref`) is replaced, and `verif` is added.
#[path = "inline_lazy.rs"]
#[doc(hidden)]
pub mod lazy;

pub use lazy::verif;

#[doc(hidden)]
pub use core::ops::Deref as __Deref;

#[macro_export(local_inner_macros)]
#[doc(hidden)]
macro_rules! __lazy_static_internal {
    // optional visibility restrictions are wrapped in `()` to allow for
    // explicitly passing otherwise implicit information about private items
    ($(#[$attr:meta])* ($($vis:tt)*) static ref $N:ident : $T:ty = $e:expr; $($t:tt)*) => {
        __lazy_static_internal!(@MAKE TY, $(#[$attr])*, ($($vis)*), $N);
        __lazy_static_internal!(@TAIL, $N : $T = $e);
        lazy_static!($($t)*);
    };
    (@TAIL, $N:ident : $T:ty = $e:expr) => {
        impl $crate::__Deref for $N {
            type Target = $T;
            fn deref(&self) -> &$T {
                #[inline(always)]
                fn __static_ref_initialize() -> $T { $e }

                #[inline(always)]
                fn __stability() -> &'static $T {
                    __lazy_static_create!(LAZY, $T);
                    LAZY.get(__static_ref_initialize)
                }
                __stability()
            }
        }
        impl $crate::LazyStatic for $N {
            fn initialize(lazy: &Self) {
                let _ = &**lazy;
            }
        }
    };
    // `vis` is wrapped in `()` to prevent parsing ambiguity
    (@MAKE TY, $(#[$attr:meta])*, ($($vis:tt)*), $N:ident) => {
        #[allow(missing_copy_implementations)]
        #[allow(non_camel_case_types)]
        #[allow(dead_code)]
        $(#[$attr])*
        $($vis)* struct $N {__private_field: ()}
        #[doc(hidden)]
        #[allow(non_upper_case_globals)]
        $($vis)* static $N: $N = $N {__private_field: ()};
    };
    () => ()
}

#[macro_export(local_inner_macros)]
macro_rules! lazy_static {
    ($(#[$attr:meta])* static ref $N:ident : $T:ty = $e:expr; $($t:tt)*) => {
        // use `()` to explicitly forward the information about private items
        __lazy_static_internal!($(#[$attr])* () static ref $N : $T = $e; $($t)*);
    };
    ($(#[$attr:meta])* pub static ref $N:ident : $T:ty = $e:expr; $($t:tt)*) => {
        __lazy_static_internal!($(#[$attr])* (pub) static ref $N : $T = $e; $($t)*);
    };
    ($(#[$attr:meta])* pub ($($vis:tt)+) static ref $N:ident : $T:ty = $e:expr; $($t:tt)*) => {
        __lazy_static_internal!($(#[$attr])* (pub ($($vis)+)) static ref $N : $T = $e; $($t)*);
    };
    () => ()
}

/// Support trait for enabling a few common operation on lazy static values.
///
/// This is implemented by each defined lazy static, and
/// used by the free functions in this crate.
pub trait LazyStatic {
    #[doc(hidden)]
    fn initialize(lazy: &Self);
}

/// Takes a shared reference to a lazy static and initializes
/// it if it has not been already.
///
/// This can be used to control the initialization point of a lazy static.
///
/// Example:
///
/// ```rust
/// use lazy_static::lazy_static;
///
/// lazy_static! {
///     static ref BUFFER: Vec<u8> = (0..255).collect();
/// }
///
/// fn main() {
///     lazy_static::initialize(&BUFFER);
///
///     // ...
///     work_with_initialized_data(&BUFFER);
/// }
/// # fn work_with_initialized_data(_: &[u8]) {}
/// ```
pub fn initialize<T: LazyStatic>(lazy: &T) {
    LazyStatic::initialize(lazy);
}
