//! `sched_sync` - what `std::sync::` is textually replaced with in the
//! instrumented copy of the crates that the schedule explorer builds.
//!
//! Every operation on an atomic, mutex, rwlock, once cell first reports a
//! *point* to the scheduler installed through `lazy_static::verif` (the shim),
//! so the explorer can switch threads exactly there. Blocking operations are
//! modelled: a thread that cannot take a lock is marked blocked on that lock and
//! is made runnable again when the lock is released. Sequential consistency is
//! assumed (relaxed-memory reorderings are not modelled).

pub use std::sync::*;

use lazy_static::verif::{self, Point};

#[inline]
fn point(id: usize) {
    if let Some(s) = verif::current() {
        s.point(Point::Sync, id);
    }
}
#[inline]
fn blocked(id: usize) {
    if let Some(s) = verif::current() {
        s.point(Point::Blocked, id);
    } else {
        std::thread::yield_now();
    }
}
#[inline]
fn released(id: usize) {
    if let Some(s) = verif::current() {
        s.point(Point::Released, id);
    }
}

pub mod atomic {
    pub use std::sync::atomic::{compiler_fence, fence, Ordering};
    use super::point;

    macro_rules! int_atomic {
        ($name:ident, $std:ident, $t:ty) => {
            #[derive(Debug, Default)]
            #[repr(transparent)]
            pub struct $name(std::sync::atomic::$std);
            impl $name {
                pub const fn new(v: $t) -> Self {
                    Self(std::sync::atomic::$std::new(v))
                }
                fn id(&self) -> usize {
                    self as *const Self as usize
                }
                pub fn get_mut(&mut self) -> &mut $t {
                    self.0.get_mut()
                }
                pub fn into_inner(self) -> $t {
                    self.0.into_inner()
                }
                pub fn load(&self, o: Ordering) -> $t {
                    point(self.id());
                    self.0.load(o)
                }
                pub fn store(&self, v: $t, o: Ordering) {
                    point(self.id());
                    self.0.store(v, o)
                }
                pub fn swap(&self, v: $t, o: Ordering) -> $t {
                    point(self.id());
                    self.0.swap(v, o)
                }
                pub fn compare_exchange(&self, c: $t, n: $t, s: Ordering, f: Ordering) -> Result<$t, $t> {
                    point(self.id());
                    self.0.compare_exchange(c, n, s, f)
                }
                pub fn compare_exchange_weak(&self, c: $t, n: $t, s: Ordering, f: Ordering) -> Result<$t, $t> {
                    point(self.id());
                    // never fail spuriously: one source of nondeterminism less
                    self.0.compare_exchange(c, n, s, f)
                }
                pub fn fetch_add(&self, v: $t, o: Ordering) -> $t {
                    point(self.id());
                    self.0.fetch_add(v, o)
                }
                pub fn fetch_sub(&self, v: $t, o: Ordering) -> $t {
                    point(self.id());
                    self.0.fetch_sub(v, o)
                }
                pub fn fetch_and(&self, v: $t, o: Ordering) -> $t {
                    point(self.id());
                    self.0.fetch_and(v, o)
                }
                pub fn fetch_nand(&self, v: $t, o: Ordering) -> $t {
                    point(self.id());
                    self.0.fetch_nand(v, o)
                }
                pub fn fetch_or(&self, v: $t, o: Ordering) -> $t {
                    point(self.id());
                    self.0.fetch_or(v, o)
                }
                pub fn fetch_xor(&self, v: $t, o: Ordering) -> $t {
                    point(self.id());
                    self.0.fetch_xor(v, o)
                }
                pub fn fetch_max(&self, v: $t, o: Ordering) -> $t {
                    point(self.id());
                    self.0.fetch_max(v, o)
                }
                pub fn fetch_min(&self, v: $t, o: Ordering) -> $t {
                    point(self.id());
                    self.0.fetch_min(v, o)
                }
                pub fn fetch_update<F: FnMut($t) -> Option<$t>>(&self, s: Ordering, f: Ordering, g: F) -> Result<$t, $t> {
                    point(self.id());
                    self.0.fetch_update(s, f, g)
                }
                pub fn as_ptr(&self) -> *mut $t {
                    self.0.as_ptr()
                }
            }
            impl From<$t> for $name {
                fn from(v: $t) -> Self {
                    Self::new(v)
                }
            }
        };
    }
    int_atomic!(AtomicU8, AtomicU8, u8);
    int_atomic!(AtomicU16, AtomicU16, u16);
    int_atomic!(AtomicU32, AtomicU32, u32);
    int_atomic!(AtomicU64, AtomicU64, u64);
    int_atomic!(AtomicUsize, AtomicUsize, usize);
    int_atomic!(AtomicI8, AtomicI8, i8);
    int_atomic!(AtomicI16, AtomicI16, i16);
    int_atomic!(AtomicI32, AtomicI32, i32);
    int_atomic!(AtomicI64, AtomicI64, i64);
    int_atomic!(AtomicIsize, AtomicIsize, isize);

    #[derive(Debug, Default)]
    #[repr(transparent)]
    pub struct AtomicBool(std::sync::atomic::AtomicBool);
    impl AtomicBool {
        pub const fn new(v: bool) -> Self {
            Self(std::sync::atomic::AtomicBool::new(v))
        }
        fn id(&self) -> usize {
            self as *const Self as usize
        }
        pub fn get_mut(&mut self) -> &mut bool {
            self.0.get_mut()
        }
        pub fn into_inner(self) -> bool {
            self.0.into_inner()
        }
        pub fn load(&self, o: Ordering) -> bool {
            point(self.id());
            self.0.load(o)
        }
        pub fn store(&self, v: bool, o: Ordering) {
            point(self.id());
            self.0.store(v, o)
        }
        pub fn swap(&self, v: bool, o: Ordering) -> bool {
            point(self.id());
            self.0.swap(v, o)
        }
        pub fn compare_exchange(&self, c: bool, n: bool, s: Ordering, f: Ordering) -> Result<bool, bool> {
            point(self.id());
            self.0.compare_exchange(c, n, s, f)
        }
        pub fn compare_exchange_weak(&self, c: bool, n: bool, s: Ordering, f: Ordering) -> Result<bool, bool> {
            point(self.id());
            self.0.compare_exchange(c, n, s, f)
        }
        pub fn fetch_and(&self, v: bool, o: Ordering) -> bool {
            point(self.id());
            self.0.fetch_and(v, o)
        }
        pub fn fetch_nand(&self, v: bool, o: Ordering) -> bool {
            point(self.id());
            self.0.fetch_nand(v, o)
        }
        pub fn fetch_or(&self, v: bool, o: Ordering) -> bool {
            point(self.id());
            self.0.fetch_or(v, o)
        }
        pub fn fetch_xor(&self, v: bool, o: Ordering) -> bool {
            point(self.id());
            self.0.fetch_xor(v, o)
        }
        pub fn fetch_update<F: FnMut(bool) -> Option<bool>>(&self, s: Ordering, f: Ordering, g: F) -> Result<bool, bool> {
            point(self.id());
            self.0.fetch_update(s, f, g)
        }
    }
    impl From<bool> for AtomicBool {
        fn from(v: bool) -> Self {
            Self::new(v)
        }
    }

    #[derive(Debug)]
    #[repr(transparent)]
    pub struct AtomicPtr<T>(std::sync::atomic::AtomicPtr<T>);
    impl<T> Default for AtomicPtr<T> {
        fn default() -> Self {
            Self::new(std::ptr::null_mut())
        }
    }
    impl<T> AtomicPtr<T> {
        pub const fn new(p: *mut T) -> Self {
            Self(std::sync::atomic::AtomicPtr::new(p))
        }
        fn id(&self) -> usize {
            self as *const Self as usize
        }
        pub fn get_mut(&mut self) -> &mut *mut T {
            self.0.get_mut()
        }
        pub fn into_inner(self) -> *mut T {
            self.0.into_inner()
        }
        pub fn load(&self, o: Ordering) -> *mut T {
            point(self.id());
            self.0.load(o)
        }
        pub fn store(&self, v: *mut T, o: Ordering) {
            point(self.id());
            self.0.store(v, o)
        }
        pub fn swap(&self, v: *mut T, o: Ordering) -> *mut T {
            point(self.id());
            self.0.swap(v, o)
        }
        pub fn compare_exchange(&self, c: *mut T, n: *mut T, s: Ordering, f: Ordering) -> Result<*mut T, *mut T> {
            point(self.id());
            self.0.compare_exchange(c, n, s, f)
        }
        pub fn compare_exchange_weak(&self, c: *mut T, n: *mut T, s: Ordering, f: Ordering) -> Result<*mut T, *mut T> {
            point(self.id());
            self.0.compare_exchange(c, n, s, f)
        }
    }
}

// ---------------------------------------------------------------------------
// Mutex
// ---------------------------------------------------------------------------

#[derive(Debug, Default)]
pub struct Mutex<T: ?Sized> {
    inner: std::sync::Mutex<T>,
}

pub struct MutexGuard<'a, T: ?Sized + 'a> {
    g: Option<std::sync::MutexGuard<'a, T>>,
    id: usize,
}

impl<T> Mutex<T> {
    pub const fn new(t: T) -> Self {
        Mutex { inner: std::sync::Mutex::new(t) }
    }
    pub fn into_inner(self) -> LockResult<T> {
        self.inner.into_inner()
    }
}

impl<T: ?Sized> Mutex<T> {
    fn id(&self) -> usize {
        self as *const Self as *const () as usize
    }
    pub fn lock(&self) -> LockResult<MutexGuard<'_, T>> {
        let id = self.id();
        point(id);
        loop {
            match self.inner.try_lock() {
                Ok(g) => return Ok(MutexGuard { g: Some(g), id }),
                Err(TryLockError::Poisoned(p)) => return Err(PoisonError::new(MutexGuard { g: Some(p.into_inner()), id })),
                Err(TryLockError::WouldBlock) => blocked(id),
            }
        }
    }
    pub fn try_lock(&self) -> TryLockResult<MutexGuard<'_, T>> {
        let id = self.id();
        point(id);
        match self.inner.try_lock() {
            Ok(g) => Ok(MutexGuard { g: Some(g), id }),
            Err(TryLockError::Poisoned(p)) => Err(TryLockError::Poisoned(PoisonError::new(MutexGuard { g: Some(p.into_inner()), id }))),
            Err(TryLockError::WouldBlock) => Err(TryLockError::WouldBlock),
        }
    }
    pub fn is_poisoned(&self) -> bool {
        self.inner.is_poisoned()
    }
    pub fn clear_poison(&self) {
        self.inner.clear_poison()
    }
    pub fn get_mut(&mut self) -> LockResult<&mut T> {
        self.inner.get_mut()
    }
}

impl<T> From<T> for Mutex<T> {
    fn from(t: T) -> Self {
        Mutex::new(t)
    }
}

impl<T: ?Sized> std::ops::Deref for MutexGuard<'_, T> {
    type Target = T;
    fn deref(&self) -> &T {
        self.g.as_ref().unwrap()
    }
}
impl<T: ?Sized> std::ops::DerefMut for MutexGuard<'_, T> {
    fn deref_mut(&mut self) -> &mut T {
        self.g.as_mut().unwrap()
    }
}
impl<T: ?Sized> Drop for MutexGuard<'_, T> {
    fn drop(&mut self) {
        self.g.take();
        released(self.id);
    }
}
impl<T: ?Sized + std::fmt::Debug> std::fmt::Debug for MutexGuard<'_, T> {
    fn fmt(&self, f: &mut std::fmt::Formatter<'_>) -> std::fmt::Result {
        std::fmt::Debug::fmt(&**self, f)
    }
}

// ---------------------------------------------------------------------------
// RwLock (readers and writers both go through try_* loops)
// ---------------------------------------------------------------------------

#[derive(Debug, Default)]
pub struct RwLock<T: ?Sized> {
    inner: std::sync::RwLock<T>,
}
pub struct RwLockReadGuard<'a, T: ?Sized + 'a> {
    g: Option<std::sync::RwLockReadGuard<'a, T>>,
    id: usize,
}
pub struct RwLockWriteGuard<'a, T: ?Sized + 'a> {
    g: Option<std::sync::RwLockWriteGuard<'a, T>>,
    id: usize,
}
impl<T> RwLock<T> {
    pub const fn new(t: T) -> Self {
        RwLock { inner: std::sync::RwLock::new(t) }
    }
    pub fn into_inner(self) -> LockResult<T> {
        self.inner.into_inner()
    }
}
impl<T: ?Sized> RwLock<T> {
    fn id(&self) -> usize {
        self as *const Self as *const () as usize
    }
    pub fn read(&self) -> LockResult<RwLockReadGuard<'_, T>> {
        let id = self.id();
        point(id);
        loop {
            match self.inner.try_read() {
                Ok(g) => return Ok(RwLockReadGuard { g: Some(g), id }),
                Err(TryLockError::Poisoned(p)) => return Err(PoisonError::new(RwLockReadGuard { g: Some(p.into_inner()), id })),
                Err(TryLockError::WouldBlock) => blocked(id),
            }
        }
    }
    pub fn write(&self) -> LockResult<RwLockWriteGuard<'_, T>> {
        let id = self.id();
        point(id);
        loop {
            match self.inner.try_write() {
                Ok(g) => return Ok(RwLockWriteGuard { g: Some(g), id }),
                Err(TryLockError::Poisoned(p)) => return Err(PoisonError::new(RwLockWriteGuard { g: Some(p.into_inner()), id })),
                Err(TryLockError::WouldBlock) => blocked(id),
            }
        }
    }
    pub fn try_read(&self) -> TryLockResult<RwLockReadGuard<'_, T>> {
        let id = self.id();
        point(id);
        match self.inner.try_read() {
            Ok(g) => Ok(RwLockReadGuard { g: Some(g), id }),
            Err(TryLockError::Poisoned(p)) => Err(TryLockError::Poisoned(PoisonError::new(RwLockReadGuard { g: Some(p.into_inner()), id }))),
            Err(TryLockError::WouldBlock) => Err(TryLockError::WouldBlock),
        }
    }
    pub fn try_write(&self) -> TryLockResult<RwLockWriteGuard<'_, T>> {
        let id = self.id();
        point(id);
        match self.inner.try_write() {
            Ok(g) => Ok(RwLockWriteGuard { g: Some(g), id }),
            Err(TryLockError::Poisoned(p)) => Err(TryLockError::Poisoned(PoisonError::new(RwLockWriteGuard { g: Some(p.into_inner()), id }))),
            Err(TryLockError::WouldBlock) => Err(TryLockError::WouldBlock),
        }
    }
    pub fn get_mut(&mut self) -> LockResult<&mut T> {
        self.inner.get_mut()
    }
    pub fn is_poisoned(&self) -> bool {
        self.inner.is_poisoned()
    }
    pub fn clear_poison(&self) {
        self.inner.clear_poison()
    }
}
impl<T> From<T> for RwLock<T> {
    fn from(t: T) -> Self {
        RwLock::new(t)
    }
}
impl<T: ?Sized> std::ops::Deref for RwLockReadGuard<'_, T> {
    type Target = T;
    fn deref(&self) -> &T {
        self.g.as_ref().unwrap()
    }
}
impl<T: ?Sized> Drop for RwLockReadGuard<'_, T> {
    fn drop(&mut self) {
        self.g.take();
        released(self.id);
    }
}
impl<T: ?Sized> std::ops::Deref for RwLockWriteGuard<'_, T> {
    type Target = T;
    fn deref(&self) -> &T {
        self.g.as_ref().unwrap()
    }
}
impl<T: ?Sized> std::ops::DerefMut for RwLockWriteGuard<'_, T> {
    fn deref_mut(&mut self) -> &mut T {
        self.g.as_mut().unwrap()
    }
}
impl<T: ?Sized> Drop for RwLockWriteGuard<'_, T> {
    fn drop(&mut self) {
        self.g.take();
        released(self.id);
    }
}

// ---------------------------------------------------------------------------
// OnceLock / Once / LazyLock on one small state machine
// ---------------------------------------------------------------------------

struct OnceState {
    st: std::sync::Mutex<u8>, // 0 uninit, 1 running, 2 done
}
impl OnceState {
    const fn new() -> Self {
        OnceState { st: std::sync::Mutex::new(0) }
    }
    fn id(&self) -> usize {
        self as *const Self as usize
    }
    fn is_done(&self) -> bool {
        *self.st.lock().unwrap() == 2
    }
    /// run `f` exactly once; other callers wait until it has finished
    fn run<F: FnOnce()>(&self, f: F) {
        let id = self.id();
        point(id);
        let mut f = Some(f);
        loop {
            let mut s = self.st.lock().unwrap();
            match *s {
                2 => return,
                0 => {
                    *s = 1;
                    drop(s);
                    point(id);
                    (f.take().unwrap())();
                    *self.st.lock().unwrap() = 2;
                    released(id);
                    return;
                }
                _ => {
                    drop(s);
                    blocked(id);
                }
            }
        }
    }
}

pub struct OnceLock<T> {
    state: OnceState,
    cell: std::cell::UnsafeCell<Option<T>>,
}
unsafe impl<T: Sync + Send> Sync for OnceLock<T> {}
unsafe impl<T: Send> Send for OnceLock<T> {}
impl<T> Default for OnceLock<T> {
    fn default() -> Self {
        Self::new()
    }
}
impl<T> OnceLock<T> {
    pub const fn new() -> Self {
        OnceLock { state: OnceState::new(), cell: std::cell::UnsafeCell::new(None) }
    }
    pub fn get(&self) -> Option<&T> {
        point(self.state.id());
        if self.state.is_done() {
            unsafe { (*self.cell.get()).as_ref() }
        } else {
            None
        }
    }
    pub fn set(&self, v: T) -> Result<(), T> {
        let mut v = Some(v);
        self.state.run(|| unsafe { *self.cell.get() = v.take() });
        match v {
            None => Ok(()),
            Some(v) => Err(v),
        }
    }
    pub fn get_or_init<F: FnOnce() -> T>(&self, f: F) -> &T {
        self.state.run(|| {
            let v = f();
            unsafe { *self.cell.get() = Some(v) }
        });
        unsafe { (*self.cell.get()).as_ref().unwrap() }
    }
    pub fn into_inner(self) -> Option<T> {
        self.cell.into_inner()
    }
    pub fn get_mut(&mut self) -> Option<&mut T> {
        self.cell.get_mut().as_mut()
    }
}

pub struct Once {
    state: OnceState,
}
impl Default for Once {
    fn default() -> Self {
        Self::new()
    }
}
impl Once {
    pub const fn new() -> Self {
        Once { state: OnceState::new() }
    }
    pub fn call_once<F: FnOnce()>(&self, f: F) {
        self.state.run(f)
    }
    pub fn is_completed(&self) -> bool {
        point(self.state.id());
        self.state.is_done()
    }
}

pub struct LazyLock<T, F = fn() -> T> {
    once: OnceLock<T>,
    init: std::sync::Mutex<Option<F>>,
}
impl<T, F: FnOnce() -> T> LazyLock<T, F> {
    pub const fn new(f: F) -> Self {
        LazyLock { once: OnceLock::new(), init: std::sync::Mutex::new(Some(f)) }
    }
    pub fn force(this: &Self) -> &T {
        this.once.get_or_init(|| (this.init.lock().unwrap().take().expect("LazyLock initialiser already taken"))())
    }
}
impl<T, F: FnOnce() -> T> std::ops::Deref for LazyLock<T, F> {
    type Target = T;
    fn deref(&self) -> &T {
        LazyLock::force(self)
    }
}
