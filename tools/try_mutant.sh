#!/bin/bash
# tools/try_mutant.sh <mutant-dir> [slot] [checks...]
#   Confirms a seeded defect (demo passes clean, fails patched; repo suite passes patched)
#   in a scratch worktree and runs the registered quick checks against it.
#   Prints one line per step and a final summary line: RESULT <name> demo_clean=.. demo_patched=.. suite=.. detected_by=..
set -u
M="$(cd "$1" && pwd)"; SLOT="${2:-0}"; shift; shift || true
CHECKS="${*:-C01 C02 C03 C04 C05 C06 C07 C08 C09 C10 C11 C12 C13 C14 C15 C16 C17 C18}"
WT=/tmp/mutrun/wt$SLOT
OUT=/tmp/mutrun/out$SLOT
mkdir -p /tmp/mutrun "$OUT"
HEAD=$(git -C /repo rev-parse HEAD)
if [ ! -d "$WT" ]; then git -C /repo worktree add -q --detach "$WT" "$HEAD" || exit 2; fi
git -C "$WT" checkout -q --detach "$HEAD" && git -C "$WT" checkout -q -- . && git -C "$WT" clean -fdq -e target
DEMO=$(grep -oE 'precis-(core|profiles|tools)/tests/[A-Za-z0-9_]*demo[A-Za-z0-9_]*\.rs' "$M/notes.md" | head -1)
[ -n "$DEMO" ] || DEMO=precis-profiles/tests/demo.rs
CRATE=$(echo "$DEMO" | cut -d/ -f1); TNAME=$(basename "$DEMO" .rs)
export CARGO_NET_OFFLINE=true
REL=""; grep -qE 'cargo test (.* )?--release' "$M/notes.md" && REL="--release"   # demo only meaningful in the release profile
run_demo() { (cd "$WT" && timeout 1200 cargo test $REL --offline -p "$CRATE" --test "$TNAME" >"$OUT/demo.log" 2>&1); }
mkdir -p "$(dirname "$WT/$DEMO")"
[ -e "$WT/$DEMO" ] && { echo "RESULT $(basename $(dirname $M))/$(basename $M) demo path $DEMO already exists in the tree"; exit 2; }
cp "$M/demo.rs" "$WT/$DEMO"
touch "$WT/precis-core/build.rs" "$WT/precis-profiles/build.rs"   # the build scripts do not track resources/
run_demo; DC=$?
git -C "$WT" apply "$M/patch.diff" || { echo "RESULT $(basename $(dirname $M))/$(basename $M) patch does not apply"; exit 2; }
touch "$WT/precis-core/build.rs" "$WT/precis-profiles/build.rs"
run_demo; DP=$?
rm -f "$WT/$DEMO"
(cd "$WT" && timeout 1800 cargo test --workspace --no-fail-fast --offline >"$OUT/suite.log" 2>&1); SU=$?
DET=""
for id in $CHECKS; do
  PRECIS_REPO="$WT" VERIF_OUT_DIR="$OUT" timeout 1200 /verif/check "$id" --tier quick >"$OUT/check-$id.log" 2>&1; rc=$?
  if [ $rc -eq 1 ] && grep -q "^VIOLATION property=$id" "$OUT/check-$id.log"; then DET="$DET $id"; fi
  if [ $rc -ne 0 ] && [ $rc -ne 1 ]; then DET="$DET $id(rc=$rc)"; fi
done
git -C "$WT" checkout -q -- . && git -C "$WT" clean -fdq -e target
touch "$WT/precis-core/build.rs" "$WT/precis-profiles/build.rs"
echo "RESULT $(basename $(dirname $M))/$(basename $M) demo_clean=$DC demo_patched=$DP suite=$SU detected_by=${DET:- none}"
