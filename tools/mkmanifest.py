#!/usr/bin/env python3
"""Render /verif/MANIFEST.json from the table below (single source of truth)."""
import json, os, sys
HERE = os.path.dirname(os.path.dirname(os.path.abspath(__file__)))

# id -> (technique, level text, level note, design ref)
CHECKS = {}
def add(pid, technique, text, note, ref):
    CHECKS[pid] = dict(technique=technique, text=text, note=note, ref=ref)

exec(open(os.path.join(HERE, "tools", "manifest_table.py")).read())

props = [json.loads(l)["id"] for l in open(os.path.join(HERE, "properties.jsonl"))]
checks = []
for pid in props:
    if pid not in CHECKS: continue
    c = CHECKS[pid]
    checks.append({
        "property_id": pid,
        "quick_cmd": f"./check {pid} --tier quick",
        "thorough_cmd": f"./check {pid} --tier thorough",
        "evidence_file": f"evidence/{pid}.json",
        "replay_cmd_template": f"./check {pid} --replay {{path}}",
        "engine": "pmc",
        "level_claimed": {"category": "model_checking", "text": c["text"], "design_ref": c["ref"]},
        "level_note": c["note"],
        "technique": c["technique"],
    })
na = [{"property_id": p, "reason": NOT_APPLICABLE.get(p, "check not built yet (work in progress)")} for p in props if p not in CHECKS]
m = {
    "version": 1,
    "setup_cmd": "./setup.sh",
    "hooks": {
        "guard": "precis_verif",
        "enable": "no source hooks are needed: every check drives public API; the guard name is reserved and unused",
        "baseline_off_cmd": "cd /repo && cargo test --workspace --no-fail-fast --offline",
        "source_commits": [],
        "add_only": True,
    },
    "engines": [
        {"name": "pmc", "path": "harness/", "serves_properties": [c["property_id"] for c in checks],
         "kind_free_text": "hand-written Rust explorers (string tree, code-point sweep, explicit-state search, lazy-singleton schedule explorer) running the real crates in lock-step with reference models written from the RFCs"},
    ],
    "checks": checks,
    "not_applicable": na,
    "notes": NOTES,
}
json.dump(m, open(os.path.join(HERE, "MANIFEST.json"), "w"), indent=1)
print("wrote MANIFEST.json with", len(checks), "checks,", len(na), "not_applicable")
