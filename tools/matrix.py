#!/usr/bin/env python3
"""Render the detection matrix of the seeded defects kept under /verif/seeded as markdown."""
import json, glob, os
rows = []
for d in sorted(glob.glob('/verif/seeded/*/meta.json')):
    m = json.load(open(d))
    rows.append(m)
print('| seeded defect | breaks | what it is (one line) | caught by (quick tier) |')
print('|---|---|---|---|')
for m in rows:
    s = m['summary'].replace('|', '/')
    if len(s) > 110: s = s[:107] + '...'
    det = ' '.join(m['detected_by_quick_checks']) or '**none**'
    if m.get('detected_by_thorough_checks'):
        det += ' (thorough: ' + ' '.join(m['detected_by_thorough_checks']) + ')'
    if not m['detected_by_quick_checks'] and m.get('note', '').startswith('NOT a violation'):
        det = 'not a violation of the property (see meta.json)'
    print(f"| {m['id']} | {m['breaks_property']} | {s} | {det} |")
tot = len(rows); hit = sum(1 for m in rows if m['detected']); own = sum(1 for m in rows if m['breaks_property'] in m['detected_by_quick_checks'])
print(f"\n{tot} seeded defects kept, {hit} caught by at least one quick check, {own} caught by the check of the very property they were written against.")
