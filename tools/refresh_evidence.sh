#!/bin/bash
# tools/refresh_evidence.sh [tier] - run every registered check on /repo itself, rewriting evidence/<id>.json;
# prints one line per check with its exit code and wall time
TIER=${1:-quick}
cd /verif
for p in C01 C02 C03 C04 C05 C06 C07 C08 C09 C10 C11 C12 C13 C14 C15 C16 C17 C18; do
  s=$(date +%s.%N)
  ./check $p --tier $TIER > /tmp/refresh-$p.log 2>&1; rc=$?
  e=$(date +%s.%N)
  printf "%s rc=%s %.1fs %s\n" $p $rc $(echo "$e - $s" | bc) "$(grep -c '^VIOLATION' /tmp/refresh-$p.log) violation lines"
done
