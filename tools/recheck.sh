#!/bin/bash
# tools/recheck.sh <seeded-id> <check...>  - re-run given quick checks against a kept seeded defect, update meta.json
ID=$1; shift
WT=/tmp/mutrun/wtS; OUT=/tmp/mutrun/outS
git -C $WT checkout -q -- . && git -C $WT clean -fdq -e target
git -C $WT apply /verif/seeded/$ID/patch.diff || exit 2
for c in "$@"; do
  PRECIS_REPO=$WT VERIF_OUT_DIR=$OUT timeout 1200 /verif/check $c --tier quick > $OUT/recheck-$c.log 2>&1; rc=$?
  if [ $rc -eq 1 ] && grep -q "^VIOLATION property=$c" $OUT/recheck-$c.log; then
    python3 - "$ID" "$c" <<'PY'
import json,sys
p=f'/verif/seeded/{sys.argv[1]}/meta.json'; m=json.load(open(p))
if sys.argv[2] not in m['detected_by_quick_checks']: m['detected_by_quick_checks']=sorted(set(m['detected_by_quick_checks']+[sys.argv[2]]))
m['detected']=True
json.dump(m,open(p,'w'),indent=1)
PY
    echo "$ID: $c detects"
  else
    echo "$ID: $c rc=$rc (no violation)"
  fi
done
git -C $WT checkout -q -- . && git -C $WT clean -fdq -e target
