#!/usr/bin/env python3
"""Copy confirmed seeded defects into /verif/seeded/<id>/ with meta.json.
usage: tools/keep_mutants.py <results.txt> <round-label> <src-suffix>   e.g. results.txt r1 -out"""
import json, os, re, shutil, sys, datetime
res, label, suffix = sys.argv[1], sys.argv[2], sys.argv[3]
root = '/verif/seeded'
os.makedirs(root, exist_ok=True)
kept = 0
for line in open(res):
    m = re.match(r'RESULT (C\d+|FIX)(-out\d*|-own)/(m\d+) demo_clean=(\d+) demo_patched=(\d+) suite=(\d+) detected_by=(.*)$', line.strip())
    if not m: continue
    prop, suf, mk, dc, dp, su, det = m.groups()
    if suf != suffix or (prop == 'FIX') != (label == 'fix'): continue
    src = f'/tmp/mut/{prop}{suf}/{mk}'
    if prop == 'FIX':
        prop = {'m1': 'C12', 'm2': 'C10', 'm3': 'C13', 'm4': 'C15', 'm5': 'C15'}[mk]
    ok = dc == '0' and dp != '0' and su == '0'
    if not ok:
        print('NOT CONFIRMED', line.strip()); continue
    det = [d for d in det.split() if d != 'none']
    sid = f'{prop}-{label}{mk}'
    dst = os.path.join(root, sid)
    if os.path.exists(os.path.join(dst, 'meta.json')) and '--force' not in sys.argv:
        continue  # kept earlier (its meta.json may carry hand-written notes)
    os.makedirs(dst, exist_ok=True)
    for f in ('patch.diff', 'demo.rs', 'notes.md'):
        shutil.copy(os.path.join(src, f), os.path.join(dst, f))
    notes = open(os.path.join(src, 'notes.md')).read()
    title = next((l.strip('# ').strip() for l in notes.splitlines() if l.strip()), '')
    needs = ''
    mm = re.search(r'(?is)(what (?:exactly )?is needed[^\n]*|needs?[^\n]{0,40}manifest[^\n]*|\*\*needs:?\*\*[^\n]*)\n?(.{0,900})', notes)
    if mm: needs = (mm.group(1) + ' ' + mm.group(2)).strip()
    demo_path = (re.findall(r'precis-(?:core|profiles|tools)/tests/[A-Za-z0-9_]*demo[A-Za-z0-9_]*\.rs', notes) or ['precis-profiles/tests/demo.rs'])[0]
    meta = {
        'id': sid,
        'breaks_property': prop,
        'origin': ('revert of one of the fix: commits in /repo (the original defect)' if label == 'fix' else 'written by the framework author to validate the schedule explorer' if label == 'own' else f'fresh sub-agent given only the text of {prop} and a scratch worktree of /repo at its HEAD (round {label})'),
        'summary': title,
        'needs_to_manifest': needs[:1200] if needs else 'see notes.md',
        'demo_placement': demo_path,
        'confirmed_by_me': {
            'demo_on_clean_tree': 'passes',
            'demo_with_patch': 'fails',
            'repo_suite_with_patch': 'passes (cargo test --workspace --no-fail-fast --offline)',
            'how': 'tools/try_mutant.sh: scratch worktree of /repo HEAD under /tmp/mutrun, demo copied in, patch applied with git apply, demo re-run, demo removed, full suite run; then every registered quick check run with PRECIS_REPO=<worktree>, VERIF_OUT_DIR=<scratch>; worktree restored',
        },
        'detected_by_quick_checks': [d for d in det if '(' not in d],
        'checks_with_machinery_exit': [d for d in det if '(' in d],
        'detected': any('(' not in d for d in det),
        'date': datetime.date.today().isoformat(),
    }
    json.dump(meta, open(os.path.join(dst, 'meta.json'), 'w'), indent=1)
    kept += 1
print('kept', kept)
