#!/bin/bash
# tools/try_batch.sh <slot> <mutant dirs...>  - run try_mutant.sh on each, append RESULT lines to /tmp/mutrun/results.txt
# One batch per slot at a time: a second batch on the same slot waits for the first (flock).
SLOT=$1; shift
mkdir -p /tmp/mutrun
exec 8> /tmp/mutrun/slot$SLOT.lock
flock 8
for m in "$@"; do
  key="$(basename $(dirname $m))/$(basename $m)"
  if grep -q "^RESULT $key " /tmp/mutrun/results.txt 2>/dev/null; then continue; fi
  /verif/tools/try_mutant.sh "$m" "$SLOT" 2>&1 | grep '^RESULT' >> /tmp/mutrun/results.txt
done
