NOTES = "All checks: ./check <ID> [--tier quick|thorough] [--replay file]; exit 0 held / 1 VIOLATION / 2 machinery problem. Known findings live in KNOWN_FINDINGS.txt."
NOT_APPLICABLE = {}
add("C14", "exhaustive enumeration of the 32-bit input space against an independent reference model and the IANA registry",
    "Every value 0..=0x1FFFFF (quick) or all 2^32 values (thorough) is classified by both string classes through both entry points and compared with the RFC 8264 s.8 decision list recomputed from the pinned raw 6.3.0 UCD files by an independent reader and with the IANA registry row; class relation and entry-point agreement are checked on every value. The thorough tier is a complete enumeration of the input space.",
    "Trusted: pinned UCD 6.3.0 copies and IANA csv under /verif/data; unicode-normalization for NFKC (cross-checked against CPython's unicodedata for all code points assigned in 6.3.0).",
    "DESIGN.md 4/C14")
