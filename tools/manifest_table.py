NOTES = ("All checks: ./check <ID> [--tier quick|thorough] [--replay file]; exit 0 held / 1 VIOLATION / 2 machinery problem "
         "(never a verdict). Every check rebuilds the harness against /repo's working tree (PRECIS_REPO overrides the subject path), "
         "explores a stated bounded space completely, and writes evidence/<ID>.json. Known findings: KNOWN_FINDINGS.txt. "
         "Besides the string tree and the code-point sweep named per check, every string-level check (C01, C02, C04-C06, C08-C12) "
         "also enumerates structural families: each code point next to its bit-16..20 aliases, pumped runs a^k b / b a^k / a^k b a "
         "for k around 8..1025, every ASCII character (single and doubled) at every offset of 7..33-byte ASCII strings; C01/C03 add "
         "same-allocation histories. VERIF_SEED rotates alphabet representatives within their behaviour class (never removes a class).")
NOT_APPLICABLE = {}
TB_UCD = "Trusted: pinned UCD copies under /verif/data (sha256 in data/SHA256SUMS)"
TB_NORM = "unicode-normalization and std's char::to_lowercase as mapping data (the subject uses the same data; what is checked is how it applies them)"

add("C01", "exhaustive enumeration of bounded string tree + full code-point sweep under catch_unwind with watchdog",
    "Every scalar value in 12 templates x 54 public operations, every u32 (quick: 0..=0x1FFFFF + lattice; thorough: all 2^32) through the code-point entry points, and every string of length <= 3/4 over a 42-symbol alphabet holding one member of every behaviour class and UTF-8 length through all operations and all context rules at all positions (incl. usize::MAX). Built with overflow checks and debug assertions; no unwind and no case over 10 s is the oracle.",
    "Bounded: strings longer than the tree bound are reached only through the sweep templates; allocation failure not explored.", "DESIGN.md 4/C01")
add("C02", "exhaustive enumeration of labels and of all derived-property assignments, lock-step with a first-offender reference model",
    "All labels of length <= 5/6 over a 25-symbol alphabet (every derived-property value x every context-rule family x enabling neighbours x UTF-8 lengths) for both standard classes, every scalar value in 7 templates, and for user-supplied classes ALL 7^k assignments of derived-property values to k=4/5 symbols x all labels of length <= 4/5; result compared with a reference that walks code points and applies RFC 5892 rules, including error payload (cp, code-point index, property).",
    "Classification of single code points is taken from the class itself (C14 decides it). " + TB_UCD, "DESIGN.md 4/C02")
add("C03", "full code-point sweep per inspected role + exhaustive label/position enumeration against declarative RFC 5892 conditions",
    "Every scalar value in 24 role templates and on [X],0 for all 8 rule functions; all labels of length <= 7/9 over {D,L,R,T,non-joining,virama,ZWNJ,ZWJ} and <= 5/6 over 14 script/digit/punctuation symbols with every rule at every position (inside, outside, usize::MAX); registry checked on every u32 (thorough: all 2^32). Oracle: RFC 5892 Appendix A conditions evaluated over the pinned 6.3.0 Scripts/DerivedJoiningType/UnicodeData by an independent reader, Undefined tolerated only where a named neighbour lies outside the label.",
    TB_UCD, "DESIGN.md 4/C03")
add("C04", "exhaustive enumeration of bounded string tree + code-point sweep, lock-step with a composed reference pipeline",
    "All strings of length <= 5/6 over a 27-symbol alphabet chosen so every pair of steps interacts (width x validation, width x NFC, case x NFC, order of validation and case mapping, contextual, RTL) x 2 profiles x {prepare, enforce}, plus every scalar value in 7 templates; results (strings and error payloads) must equal width -> non-empty -> IdentifierClass -> [lowercase] -> NFC -> non-empty -> directionality.",
    "Directionality step is the implementation's own rule used as a black box (C09 decides it). " + TB_NORM + ". " + TB_UCD, "DESIGN.md 4/C04")
add("C05", "exhaustive enumeration of bounded string tree + code-point sweep, lock-step with a reference pipeline",
    "All strings of length <= 5/6 over 20 symbols (ASCII space, Zs of 2/3 bytes, NFC-changing sequences, compatibility characters that must survive, 1-4 byte letters, invalid code points) x {prepare, enforce} and every scalar value in 9 templates; whole results compared with non-empty -> FreeformClass -> non-ASCII Zs to U+0020 -> NFC -> non-empty, so any other alteration is visible.",
    TB_NORM + ". " + TB_UCD, "DESIGN.md 4/C05")
add("C06", "exhaustive enumeration of bounded string tree + code-point sweep, lock-step with an iterated reference model; fixed-point re-check of every accepted state",
    "All strings of length <= 4/5 over 20 symbols (incl. characters whose NFKC form introduces spaces or needs re-validation) and <= 6/8 over 8 space/length symbols, every scalar value in 7 templates; enforce compared with the RFC 8264 s.7 iteration of the RFC 8266 rules; every accepted result is re-enforced and re-run through one reference application.",
    TB_NORM + ". " + TB_UCD, "DESIGN.md 4/C06")
add("C07", "exhaustive enumeration of all ordered pairs (and all triples of a window) over a bounded string set",
    "All ordered pairs of all strings of length <= 2/3 over 23 symbols (plus one length deeper over the interaction symbols) x 4 profiles: compare must equal the first operand's error / second operand's error / equality of canonical forms (implementation's own enforce for usernames and OpaqueString, reference comparison pipeline for Nickname); reflexivity, symmetry and transitivity checked on all pairs/triples of the first 150/400 strings.",
    "For usernames/OpaqueString the canonical form is what enforce returns (C04/C05 decide whether that is right).", "DESIGN.md 4/C07")
add("C08", "full code-point sweep in 12 contexts + enumeration of every canonical decomposition and its reorderings + bounded string tree; invariant evaluated on every accepted output",
    "Every scalar value between 3 prefixes and 4 suffixes x 4 profiles, every canonically decomposable character's decompositions/mark permutations/prefixes/upper-cased variants, all strings of length <= 4/5 over 24 cased/width/compatibility symbols: each accepted result is re-classified code point by code point with the profile's class and the reference derived property, and re-enforced (must return itself or an error).",
    TB_UCD + "; known finding cherokee_lowercase_unassigned.", "DESIGN.md 4/C08")
add("C09", "exhaustive enumeration of all bidi-class sequences up to a length bound + complete W-method conformance suite of the specification automaton + full sweep of assigned code points through the class table",
    "All sequences of length <= 6/7 over the 23 bidirectional classes (3.56e9 at 7) through directionality_rule, compared with the six RFC 5893 conditions written as set predicates; every code point assigned in the profile crate's UnicodeData in 5 contexts that separate every class partition the rule can observe; and the complete Chow/Vasilevskii test suite of the 10-state specification automaton with 2/4 extra states, which extends the verdict to class sequences of every length under the stated state-count assumption.",
    "The scan's state is reached by <= 4 symbols so the bound covers every transition of every reachable state; a change adding a counter beyond the bound is outside it. " + TB_UCD + "; known finding bidi_interior_nsm.", "DESIGN.md 4/C09")
add("C10", "exhaustive enumeration of bounded string tree + full code-point sweep in 10 position templates",
    "All strings of length <= 5/6 over 16 symbols (upper, lower, titlecase, Other_Uppercase, multi-character mapping, 1-4 bytes, uncased) and every scalar value in 10 templates through case_mapping_rule of both profiles that have it; result must be the concatenation of each character's full lowercase mapping; idempotence checked on every output.",
    TB_NORM, "DESIGN.md 4/C10")
add("C11", "exhaustive enumeration of bounded string tree + full code-point sweep against the decomposition tags of UnicodeData",
    "All strings of length <= 5/7 over 13 symbols and every scalar value in 7 templates through width_mapping_rule of both username profiles; per-character oracle from the <wide>/<narrow> tags read by an independent reader; idempotence on every output.",
    TB_UCD, "DESIGN.md 4/C11")
add("C12", "exhaustive enumeration of all space/non-space patterns up to a length bound + complete W-method suite of the Mealy specification + full code-point sweep",
    "All strings of length <= 7/9 over {U+0020, Zs of 2 and 3 bytes, letters of 1-4 bytes} (134M at 9) and every scalar value in 7 templates through the Nickname and OpaqueString additional mapping rules; oracle = split/join specification; idempotence on every output.",
    TB_UCD, "DESIGN.md 4/C12")
add("C13", "explicit-state search: all functions on a k-element universe x all starts",
    "Every function f from a universe of 4/6 strings to that universe + {Err(Invalid), Err(BadCodepoint)} (6^4 / 8^6 functions) x every start x Cow styles x argument forms, plus a diverging rule; result and call log compared with the RFC 8264 s.7 chain semantics (first application + three re-applications).",
    "stabilize observes f only through its return values, so a universe of k strings contains every chain shape up to length k.", "DESIGN.md 4/C13")
add("C14", "exhaustive enumeration of the 32-bit input space against an independent reference model and the IANA registry",
    "Every value 0..=0x1FFFFF + lattice (quick) or all 2^32 values (thorough) classified by both classes through both entry points and compared with the RFC 8264 s.8 decision list recomputed from the pinned raw 6.3.0 UCD files and with the IANA registry row; class relation and entry-point agreement on every value.",
    TB_UCD + "; NFKC from unicode-normalization, cross-checked against CPython's unicodedata for all code points assigned in 6.3.0.", "DESIGN.md 4/C14")
add("C15", "explicit-state enumeration of all well-formed input configurations of a code-point window through the real generators + full check of the tables the build just emitted",
    "Every tiling of a 6/8-slot window into {gap, single, First/Last range} x 2/3 attribute bundles at 3 window positions through the public generator API, every {none,P,Q} assignment x line segmentation x value order through the property-file generators, and all 47 tables emitted by the real build scripts x every code point: denotation equals the input, entries strictly increasing and disjoint, binary search with the library's own comparison finds exactly the members.",
    "Windows end at U+10FFFD (well-formed UnicodeData never lists the noncharacters U+10FFFE/F).", "DESIGN.md 4/C15")
add("C16", "exhaustive enumeration of API forms and of call histories up to a depth against first-call-in-fresh-process results; exhaustive interleavings of threads over the lazy-singleton points under a controlled scheduler",
    "All strings of length <= 3/4 over 16 symbols x every (entry point, argument form) pair; every call history of length <= 2/3 over 72 calls on the process-wide statics and long-lived instances, each result compared with that call made first in a fresh process (72 child processes); every schedule of 2-3 threads over the lazy-singleton initialisation/deref points (schedule explorer with a patched lazy_static); inventory of shared-state constructs.",
    "std::sync::Once is modelled, not checked; unsynchronised shared memory without a lazy deref in the racy window is visible only to the history search.", "DESIGN.md 4/C16, 7")
add("C17", "grammar enumeration: every code point, every range over a boundary set x every property field x every description, all short files",
    "Every code point as a row in 4/5/6-digit hex, every range over 26 boundary values x 154 property fields x 8 descriptions, 38 hand-listed + systematic field deletions/corruptions, every file of <= 3/4 rows over a 15-row pool x LF/CRLF x final newline through CsvLineParser (order, line numbers), and the real IANA file row by row; expected values known by construction.",
    "Reversed ranges, '+'-prefixed and lower-case hex are outside the statement and not judged.", "DESIGN.md 4/C17")
add("C18", "complete enumeration of a window of entries x code points x operators, and of all sorted tables over a window",
    "Every Single/Range entry over a value window containing 0, u32::MAX and the Unicode boundary x every code point in the window x 12 operator forms against trichotomy by definition; every strictly increasing disjoint table over a 10/13-slot window at three bases x every probe through the library's binary_search_by(partial_cmp().unwrap()).",
    "Comparisons are pure functions of (start, end, cp); the window contains every relative position and both extremes.", "DESIGN.md 4/C18")
